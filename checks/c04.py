"""C04 -- freq_shift moves the spectrum by the given amount, zeroing what leaves the band.

Enumerated: N x complex width x channel/pol shape x sample rate x EVERY broadcastable shift shape x bin
values (whole, fractional, |b| >= N, mixed signs) x units.  Basis input (e_j, i e_j) + payload.
Oracle: long-double  IDFT( zero_wrapped( DFT( x * exp(2 pi i b n / N) ) ) ).
"""
import itertools
import math
import sys
from fractions import Fraction as F

import numpy as np
import astropy.units as u

from pbmc import bind_repo, report, factory, history
from pbmc.exact import time_days as T, hz
from pbmc.oracles import dft
from checks.c03 import shift_shapes, meta_same

pb = bind_repo()
PID = "C04"

BOUNDS = {
    "quick": dict(Ns=[1, 2, 3, 4, 5, 8, 9, 16], dtypes=["complex64", "complex128"],
                  shapes=[(1,), (3,), (3, 2), (2, 1, 2)], rates=[("8Hz", "Hz"), ("1MHz", "kHz"), ("3Hz", "Hz")]),
    "thorough": dict(Ns=[1, 2, 3, 4, 5, 6, 7, 8, 9, 12, 13, 16, 25, 32], dtypes=["complex64", "complex128"],
                     shapes=[(1,), (3,), (3, 2), (2, 1, 2), (4, 2, 1)],
                     rates=[("8Hz", "Hz"), ("1MHz", "kHz"), ("3Hz", "Hz"), ("1MHz", "MHz"), ("800MHz", "MHz")]),
}


def bin_values(N):
    vals = [1, -1, 2, -2, 0.5, -0.5, 2.5, -2.5, N - 1, -(N - 1), N, -N, N + 3, -(N + 3), 0, 1e-7, -1e-7,
            1e19, -1e19, 3e30]        # (shifts of more than 2^63 bins: far out of band, everything must be zero)
    out = []
    for v in vals:
        if v not in out:
            out.append(v)
    return out


def describe(tier):
    b = BOUNDS[tier]
    return {
        "bounds": {"N": b["Ns"], "dtypes": b["dtypes"], "sample_shapes": [list(s) for s in b["shapes"]],
                   "rates/units": b["rates"], "bins": "0, -0.0, +-1, +-2, +-1/2, +-5/2, +-(N-1), +-N, +-(N+3); uniform + 5 mixed fillings"},
        "alphabet": ["freq_shift(z, scalar Quantity)", "freq_shift(z, Quantity array of every broadcastable shape)",
                     "TypeError for non-baseband", "ValueError for non-frequency shift / too many dims"],
        "rule": "state = (N, dtype, sample shape, rate, shift shape, filling); one real call per state on a complete basis + "
                "payload; each element compared with the long-double mix/DFT/zero/IDFT reference; shifted spectrum bins that "
                "wrapped must vanish; boundary bin left open only when the exact shift is within 1e-9 of (but not equal to) a "
                "whole bin",
    }


def gen_cases(tier, seed):
    b = BOUNDS[tier]
    for N in b["Ns"]:
        for dt in b["dtypes"]:
            for ss in b["shapes"]:
                for rate, unit in b["rates"]:
                    yield {"N": N, "dtype": dt, "ss": list(ss), "rate": rate, "unit": unit, "seed": seed}
    for N in ((16384, 65536) if tier == "quick" else (16384, 65536, 99991)):
        for dt in b["dtypes"]:
            yield {"kind": "long", "N": N, "dtype": dt}


def fillings(N, shape):
    vals = bin_values(N)
    if shape is None:
        for v in vals:
            yield f"scalar {v}", np.float64(v)
        return
    size = int(np.prod(shape))
    for v in vals:
        yield f"uniform {v}", np.full(shape, float(v))
    mixed = [[0.5, -2, 2.5, -1, N + 3, -0.5], [-(N - 1), 1, 0, 2.5, -0.5, 2], [1, 2, 0.5, N - 1, 2.5, N],
             [-1, -2.5, -0.5, -N, -2, -(N + 3)], [-0.0, 2.5, -0.0, -1, 0.0, -0.0]]
    for i, m in enumerate(mixed):
        arr = np.array([m[j % len(m)] for j in range(size)], dtype=float).reshape(shape)
        yield f"mixed{i}", arr
        if arr.ndim >= 2 and min(arr.shape[-2:]) > 1 and i < 2:
            # the same values as a view whose memory order is not the index order
            yield f"mixed{i} (Fortran-ordered)", np.asfortranarray(arr)
            yield f"mixed{i} (transposed view)", np.ascontiguousarray(np.swapaxes(arr, -1, -2)).swapaxes(-1, -2)


def make_signal(N, dtype, ss, data, rate):
    cls = "DualPolarizationSignal" if len(ss) >= 2 and ss[1] == 2 else "BasebandSignal"
    return factory.make(cls, data, rate_name=rate, start_name="iso", fc=400 * u.MHz,
                        align="bottom" if ss[0] % 2 == 0 else "center", pol_type="linear", meta={"k": 2})


_EXP = {}


def expected_matrices(N, b, variants):
    """Operator matrices (N x N) for exact shift of b bins, one per accepted zero-count variant."""
    key = (N, b, tuple(variants))
    if key in _EXP:
        return _EXP[key]
    mix = dft.mix_operator_diag(N, b)
    W = dft.dft_matrix(N)
    Wi = dft.dft_matrix(N, +1) / dft.LD(N)
    order = np.argsort(dft.signed_bins(N), kind="stable")      # fftshift order -> DFT slot
    outs = []
    for nz in variants:
        keep = np.ones(N, dtype=dft.LD)
        if nz > 0:
            keep[order[:min(N, nz)]] = 0
        elif nz < 0:
            keep[order[max(0, N + nz):]] = 0
        M = (Wi * keep[None, :]) @ (W * mix[None, :])
        outs.append((M, keep))
    _EXP[key] = outs
    return outs


def zero_variants(b, exact_arith=True):
    """Accepted numbers of zeroed bins (signed: + from the bottom, - from the top).

    The single boundary bin is left open when the requested shift is within rounding of a whole bin: either the exact
    shift is within 1e-9 of (but not equal to) a whole bin, or it is a whole bin but the library's float product
    shift * dt * N cannot be exact (sample spacing 1/sample_rate not a dyadic number), so that it may come out one ulp
    above the integer and ceil() takes the next bin.
    """
    if b == 0:
        return [0]
    # (an exactly whole number of bins is constrained: the library takes a product within 1e-8 of a whole number as that number)
    near = abs(b - round(b)) <= F(1, 10 ** 8) and b.denominator != 1
    if b > 0:
        v = [math.ceil(b)]
        if near:
            v = sorted({round(b), round(b) + 1})
    else:
        v = [-math.ceil(-b)]
        if near:
            v = sorted({-(round(-b)), -(round(-b) + 1)})
    return v


def check_call(res, case, z, Xof, q, bex, ss, sub, exact_arith=True):
    N = len(z)
    eps = float(np.finfo(np.dtype(case["dtype"])).eps)
    tol = 64 * eps * max(N, 1)
    site = "freq_shift"
    try:
        out = pb.freq_shift(z, q)
    except Exception as e:
        res.transitions += 1
        res.violation(f"{site}|raised", f"{type(e).__name__}: {e} [{sub}]", case, sub)
        return
    res.transitions += 1
    res.traces += 1
    m = meta_same(z, out)
    if m:
        res.violation(f"{site}|metadata", f"{m} [{sub}]", case, sub)
    if out.shape != z.shape:
        res.violation(f"{site}|shape", f"{out.shape} != {z.shape} [{sub}]", case, sub)
        return
    if out.start_time is None or T(out.start_time) != T(z.start_time):
        res.violation(f"{site}|start_time", f"start_time changed [{sub}]", case, sub)
    y = np.asarray(out.data)
    W = dft.dft_matrix(N)
    for idx in np.ndindex(*ss):
        b = bex[idx]
        col = y[(slice(None),) + idx]
        if col.ndim == 1:
            col = col[:, None]
        X = Xof(idx)
        variants = zero_variants(b, exact_arith)
        if len(variants) > 1:
            res.skipped["boundary bin open: shift within rounding of a whole bin (non-dyadic sample spacing)"] += 1
        best = None
        for M, keep in expected_matrices(N, b, variants):
            E = M @ X
            err = float(np.max(np.abs(col.astype(dft.CLD) - E))) if col.size else 0.0
            # the wrapped bins of the output spectrum must vanish
            Y = W @ col.astype(dft.CLD)
            zerr = float(np.max(np.abs(Y[keep == 0]))) / max(N, 1) if np.any(keep == 0) else 0.0
            if best is None or max(err, zerr) < max(best):
                best = (err, zerr)
        err, zerr = best
        if abs(b) >= N:
            res.hits["|shift| >= bandwidth (all zero)"] += 1
        if variants != [0]:
            res.hits["wrapped bins checked"] += 1
        if not res.ratio("wrapped-bin magnitude / budget", zerr, tol):
            res.violation(f"{site}|wrapped bins not zero", f"element {idx} shift {float(b)} bins: spectrum that left the band "
                          f"is still present (|Y|/N = {zerr:.3g}, budget {tol:.3g}) [{sub}]", case, dict(sub, element=list(idx)))
        elif not res.ratio("value err / (64 eps N)", err, tol):
            res.violation(f"{site}|values", f"element {idx} shift {float(b)} bins: max |out - oracle| = {err:.3g} "
                          f"(budget {tol:.3g}) [{sub}]", case, dict(sub, element=list(idx)))
        res.outcome((N, str(b)))


def long_case(case, res):
    """Long signals: the mixing phase must stay accurate at large sample indices (float64 FFT reference)."""
    N = case["N"]
    dtype = np.dtype(case["dtype"])
    rng = np.random.default_rng(4)
    x = (rng.uniform(-1, 1, (N, 2)) + 1j * rng.uniform(-1, 1, (N, 2))).astype(dtype)
    z = factory.make("BasebandSignal", x, rate_name="1MHz", start_name="iso", fc=400 * u.MHz)
    n = np.arange(N)[:, None]
    eps = float(np.finfo(dtype).eps)
    # (600.004 / -1200.008: far from zero AND a few thousandths of a bin off a whole bin - not "close enough" to whole)
    for b in (24001, -17777, 0.5, N // 3 + 0.25, 600.004, -1200.008, 3000.5 + 2 ** -12):
        q = (b * 1e6 / N) * u.Hz
        bex = F(float(q.value)) * N / 10 ** 6
        out = pb.freq_shift(z, q)
        res.transitions += 1
        res.traces += 1
        res.state(("long", N, str(dtype), b))
        mixed = x.astype(complex) * np.exp(2j * np.pi * float(bex) * n / N)
        Y = np.fft.fftshift(np.fft.fft(mixed, axis=0), axes=0)
        k = math.ceil(bex) if bex > 0 else -math.ceil(-bex)
        if k > 0:
            Y[:k] = 0
        elif k < 0:
            Y[k:] = 0
        ref = np.fft.ifft(np.fft.ifftshift(Y, axes=0), axis=0)
        e = float(np.max(np.abs(np.asarray(out.data) - ref)))
        # + the rounding of the phase argument 2 pi b n/N itself in double precision (|argument| <= 2 pi |b|), which the float64
        #   reference shares
        tol = (256 * eps + 8 * math.pi * abs(float(bex)) * float(np.finfo(np.float64).eps)) * float(np.max(np.abs(x)))
        if abs(bex - round(bex)) < 1e-8 and bex.denominator != 1:
            res.skipped["boundary bin open: shift within rounding of a whole bin (non-dyadic sample spacing)"] += 1
            continue
        if not res.ratio("long-signal err / (256 eps)", e, tol):
            res.violation("freq_shift|long signal|values", f"N={N} {dtype} shift {b} bins: max |out - reference| = {e:.3g} (budget "
                          f"{tol:.3g}); the mixing phase loses accuracy at large sample indices", case, {"b": b})
        if out.dtype != dtype:
            res.violation("freq_shift|long signal|dtype", f"{out.dtype}", case, {"b": b})
    res.hits["long signal"] += 1
    res.sample({"long": N, "dtype": str(dtype)}, 1)
    return res


def check_case(case):
    res = report.Result()
    if case.get("kind") == "long":
        return long_case(case, res)
    N, ss = case["N"], tuple(case["ss"])
    dtype = np.dtype(case["dtype"])
    rng = np.random.default_rng(2000 + case["seed"])
    B = 2 * N
    eye = np.eye(N)
    Xb = np.concatenate([eye, 1j * eye], axis=1)
    basis = np.broadcast_to(Xb.reshape((N,) + (1,) * len(ss) + (B,)), (N,) + ss + (B,)).astype(dtype)
    zb = make_signal(N, dtype, ss + (B,), np.array(basis), case["rate"])
    g = (rng.uniform(-1, 1, size=(N,) + ss) + 1j * rng.uniform(-1, 1, size=(N,) + ss)).astype(dtype)
    zg = make_signal(N, dtype, ss, g, case["rate"])
    XbL = Xb.astype(dft.CLD)
    XgL = np.asarray(zg.data).astype(dft.CLD)
    srx = hz(zg.sample_rate)
    dyadic = (srx.numerator & (srx.numerator - 1)) == 0 and (srx.denominator & (srx.denominator - 1)) == 0
    unit = u.Unit(case["unit"])
    sr_in_unit = zg.sample_rate.to_value(unit)

    for shp in shift_shapes(ss):
        for name, val in fillings(N, shp):
            sub = {"shift_shape": None if shp is None else list(shp), "fill": name, "unit": case["unit"]}
            q = (np.asarray(val, dtype=float) * sr_in_unit / N) * unit        # requested bins -> frequency
            # exact bins from the Quantity actually passed
            qa = np.asarray(q.value, dtype=float)
            if qa.ndim:
                qa = qa[(slice(None),) * qa.ndim + (None,) * (len(ss) - qa.ndim)]
            qb = np.broadcast_to(qa, ss)
            sc = hz(1 * unit)
            bex = np.empty(ss, dtype=object)
            for idx in np.ndindex(*ss):
                bex[idx] = F(float(qb[idx])) * sc * N / srx
            res.state((N, str(dtype), ss, case["rate"], shp, name))
            check_call(res, case, zb, lambda idx: XbL, q, bex, ss, dict(sub, input="basis"), dyadic)
            if shp is None or len(shp) <= len(ss):
                check_call(res, case, zg, lambda idx: XgL[(slice(None),) + idx].reshape(N, 1), q, bex, ss,
                           dict(sub, input="payload"), dyadic)
            if shp is None:
                res.hits["scalar shift on multi-element sample shape"] += int(np.prod(ss) > 1)
            elif any(a == 1 and b_ > 1 for a, b_ in zip(shp, ss)) or len(shp) < len(ss):
                res.hits["shift broadcast across sample axes"] += 1
    # the same (N, shift) with the other complex width, back and forth in one process: results must not depend on call history
    other = np.dtype("complex64") if dtype == np.complex128 else np.dtype("complex128")
    zo = make_signal(N, other, ss, g.astype(other), case["rate"])
    for k in (1, 2.5, -0.5):
        q = (k * sr_in_unit / N) * unit
        bq = F(float(q.value)) * hz(1 * unit) * N / srx
        for order in ((zg, zo, zg), (zo, zg, zo)):
            for zz in order:
                o = pb.freq_shift(zz, q)
                res.transitions += 1
                if o.dtype != zz.dtype:
                    res.violation("freq_shift|dtype depends on call history", f"after alternating complex widths the result dtype is "
                                  f"{o.dtype} for {zz.dtype} input", case, {"k": k})
                    break
                M, keep = expected_matrices(N, bq, zero_variants(bq, dyadic))[0]
                Xz = np.asarray(zz.data).astype(dft.CLD)
                e = 0.0
                for idx in np.ndindex(*ss):
                    e = max(e, float(np.max(np.abs(np.asarray(o.data)[(slice(None),) + idx].astype(dft.CLD) - M @ Xz[(slice(None),) + idx]))))
                if len(zero_variants(bq, dyadic)) == 1 and e > 64 * float(np.finfo(zz.dtype).eps) * max(N, 1):
                    res.violation("freq_shift|precision depends on call history", f"after alternating complex widths the {zz.dtype} result "
                                  f"is off by {e:.3g}", case, {"k": k})
                    break
    res.hits["alternating complex widths"] += 1
    # assignment history on ONE object: use it, re-assign sample_rate, shift again == the same shift of a freshly built signal
    for k in (1, 2.5):
        obj = type(zg).like(zg)
        q = (k * sr_in_unit / N) * unit
        _ = (pb.freq_shift(obj, q), obj.dt, obj.time_length)
        for factor in (2, 0.25):
            obj.sample_rate = obj.sample_rate * factor
            fresh = make_signal(N, dtype, ss, g, case["rate"])
            fresh = type(fresh).like(fresh, sample_rate=obj.sample_rate)
            try:
                a, b_ = pb.freq_shift(obj, q), pb.freq_shift(fresh, q)
            except Exception as e:
                res.violation("freq_shift|assignment history raised", f"{type(e).__name__}: {e}", case, {"k": k})
                break
            res.transitions += 2
            if not np.array_equal(np.asarray(a.data), np.asarray(b_.data)) or a.sample_rate != b_.sample_rate:
                res.violation("freq_shift|assignment history|stale sample spacing", f"after use and 'z.sample_rate = ...' the shift by {q} "
                              f"differs from the same shift of a freshly built signal with that rate (max diff "
                              f"{float(np.max(np.abs(np.asarray(a.data) - np.asarray(b_.data)))):.3g})", case, {"k": k, "factor": factor})
                break
        else:
            res.hits["sample_rate assigned between shifts"] += 1
    history.reuse_buffer(res, case, zg, [("freq_shift 1 bin", lambda q_: pb.freq_shift(q_, (1 * sr_in_unit / N) * unit)),
                                         ("freq_shift -2.5 bins", lambda q_: pb.freq_shift(q_, (-2.5 * sr_in_unit / N) * unit))], "freq_shift")
    # a shift array longer than the sample axis it is matched with must be refused (never enlarge the signal)
    for bad_shape in [tuple(n_ + 1 if i == k_ else n_ for i, n_ in enumerate(ss[:m_])) for m_ in range(1, len(ss) + 1) for k_ in range(m_)]:
        res.transitions += 1
        try:
            o_ = pb.freq_shift(zg, np.ones(bad_shape) * unit)
            res.violation("freq_shift|mismatching shift shape accepted", f"shift of shape {bad_shape} on sample shape {ss}: returned "
                          f"shape {o_.shape}", case, {"shape": list(bad_shape)})
        except ValueError:
            res.hits["mismatching shift shape refused"] += 1
        except Exception as e:
            res.violation("freq_shift|mismatching shift shape wrong exception", f"{type(e).__name__}: {e}", case, {"shape": list(bad_shape)})
    # error contract
    zi = factory.make("IntensitySignal", np.ones((4, 2)), rate_name="1Hz", chan_bw=1 * u.Hz)
    for bad, exc, what in ((lambda: pb.freq_shift(zi, 1 * u.Hz), TypeError, "non-baseband"),
                           (lambda: pb.freq_shift(zg, 1.0), ValueError, "plain number"),
                           (lambda: pb.freq_shift(zg, 1 * u.s), ValueError, "time unit"),
                           (lambda: pb.freq_shift(zg, np.ones((1,) * zg.ndim) * u.Hz), ValueError, "too many dims")):
        res.transitions += 1
        try:
            bad()
            res.violation(f"freq_shift|{what} accepted", f"{what}: no exception", case, None)
        except exc:
            res.hits["error contract"] += 1
        except Exception as e:
            res.violation(f"freq_shift|{what} wrong exception", f"{what}: {type(e).__name__}: {e} (expected {exc.__name__})",
                          case, None)
    res.sample({"N": N, "dtype": str(dtype), "sample_shape": list(ss), "rate": case["rate"]}, 1)
    return res


def main(argv=None):
    return report.run_check(
        PID, gen_cases=gen_cases, check_case=check_case, describe=describe,
        required_hits=["buffer overwritten between calls", "mismatching shift shape refused", "wrapped bins checked", "|shift| >= bandwidth (all zero)",
                       "scalar shift on multi-element sample shape", "shift broadcast across sample axes", "alternating complex widths", "sample_rate assigned between shifts", "long signal", "error contract"],
        assumptions=["value budget 64*eps(dtype)*N*max|x|; the mixing phasor is computed in the signal's own precision",
                     "a shift within 1e-9 of a whole bin at a non-dyadic rate leaves the single boundary bin open"],
        argv=argv)


if __name__ == "__main__":
    sys.exit(main())
