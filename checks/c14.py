"""C14 -- no operation modifies the signal or arguments it is given.

Breadth-first search over HISTORIES: a pool starts with input signals backed by writable buffers of several
layouts (C-contiguous, strided view, Fortran order, complex64, NaN/inf content, Dask-wrapped buffer, 1-D) plus
array / Quantity / Time / list arguments; each transition applies one catalogue operation (incl. ones that
raise) to a pool member -- including earlier outputs, which may alias inputs -- and adds its outputs.
Invariant after every transition: byte-wise snapshot of every pre-existing pool member, of the base buffers
behind views, and of every argument is unchanged.
"""
import copy
import hashlib
import sys

import numpy as np
import astropy.units as u
from astropy.time import Time
import dask.array as da

from pbmc import bind_repo, report, factory, invariants, catalogue

pb = bind_repo()
factory.PROVENANCE_ENABLED = False      # this check tracks the identity of the buffers the signals are built on
PID = "C14"
DEPTH = {"quick": 2, "thorough": 3}


def describe(tier):
    return {
        "bounds": {"history depth": DEPTH[tier], "initial pool": ["DualPol c128 C-contiguous", "Baseband c64 strided view",
                                                                   "FullStokes f64 Fortran order", "Baseband c128 with NaN/inf",
                                                                   "Intensity f32 strided channels", "DualPol c128 Dask-wrapped buffer",
                                                                   "Signal f64 1-D without start"],
                   "operations": len(catalogue.OPS) + len(ARG_OPS)},
        "alphabet": [n for n, _, _ in catalogue.OPS] + [n for n, _, _, _ in ARG_OPS],
        "rule": "state = pool of real signals (de-duplicated on type, shape, dtype, data bytes, metadata); transition = one real "
                "operation on one member; invariant = byte snapshot (data, dtype, shape, strides, writeable flag, public attributes, "
                "deep-copied meta) of all earlier members, base buffers and arguments is unchanged, whether the call returns or raises",
    }


def gen_cases(tier, seed):
    for i in range(len(INITIAL)):
        yield {"kind": "bfs", "root": i, "depth": DEPTH[tier]}
    yield {"kind": "sanctioned"}


# ------------------------------------------------------------------------------------------------------------
def snap_array(a):
    if isinstance(a, da.Array):
        return ("dask", a.shape, str(a.dtype), a.name)
    a_ = np.asarray(a)
    return ("nd", a_.shape, str(a_.dtype), a_.strides, bool(a_.flags.writeable), hashlib.blake2b(a_.tobytes(), digest_size=16).digest())


def snap_value(v):
    if isinstance(v, pb.Signal):
        at = tuple((k, repr(getattr(v, k))) for k in invariants.ATTRS if hasattr(v, k) and k not in ("meta", "start_time"))
        st = None if v.start_time is None else (float(v.start_time.jd1).hex(), float(v.start_time.jd2).hex(), v.start_time.scale,
                                                 v.start_time.format)
        return ("signal", type(v).__name__, snap_array(v.data), at, st, repr(copy.deepcopy(v.meta)))
    if isinstance(v, pb.Phase):
        # both doubles (the plain .value is their single-double sum)
        return ("phase", snap_array(np.asarray(v["int"].value)), snap_array(np.asarray(v["frac"].value)), bool(np.all(v.imaginary)))
    if isinstance(v, Time):
        return ("time", np.asarray(v.jd1).tobytes(), np.asarray(v.jd2).tobytes(), v.scale, v.format)
    if isinstance(v, u.Quantity):
        return ("quantity", str(v.unit), snap_array(v.value), type(v).__name__)
    if isinstance(v, np.ndarray):
        return snap_array(v)
    if isinstance(v, (list, tuple)):
        return (type(v).__name__, tuple(id(x) for x in v), tuple(snap_value(x) for x in v))
    if isinstance(v, dict):
        return ("dict", repr(sorted(v.items(), key=repr)))
    return ("other", repr(v))


def mk_initial():
    """(name, signal, [base buffers that must not change])"""
    rng = np.random.default_rng(14)
    out = []
    x = rng.normal(size=(12, 2, 2)) + 1j * rng.normal(size=(12, 2, 2))
    out.append(("dualpol c128 contiguous", factory.make("DualPolarizationSignal", x, rate_name="1MHz", start_name="iso",
                                                        fc=400 * u.MHz, align="bottom", pol_type="linear", meta={"k": [1, 2]}), [x]))
    base = (rng.normal(size=(24, 3)) + 1j * rng.normal(size=(24, 3))).astype(np.complex64)
    out.append(("baseband c64 strided view", factory.make("BasebandSignal", base[::2], rate_name="1MHz", start_name="iso",
                                                          fc=400 * u.MHz, meta={"k": 2}), [base]))
    f = np.asfortranarray(rng.normal(size=(12, 2, 4)))
    out.append(("fullstokes f64 fortran", factory.make("FullStokesSignal", f, rate_name="1kHz", start_name="iso", fc=1.4 * u.GHz,
                                                       chan_bw=1 * u.MHz, align="top", meta=None), [f]))
    xn = rng.normal(size=(12, 2)) + 1j * rng.normal(size=(12, 2))
    xn[3, 0] = np.nan
    xn[7, 1] = np.inf
    xn[9, 0] = complex(-np.inf, np.nan)
    out.append(("baseband c128 NaN/inf", factory.make("BasebandSignal", xn, rate_name="1MHz", start_name="iso", fc=400 * u.MHz,
                                                      align="top"), [xn]))
    b32 = rng.normal(size=(12, 6, 2)).astype(np.float32)
    out.append(("intensity f32 strided channels", factory.make("IntensitySignal", b32[:, ::2], rate_name="1Hz", start_name="iso",
                                                               fc=327 * u.MHz, chan_bw=3.125 * u.MHz), [b32]))
    xd = rng.normal(size=(12, 2, 2)) + 1j * rng.normal(size=(12, 2, 2))
    out.append(("dualpol c128 dask-wrapped", factory.make("DualPolarizationSignal", da.from_array(xd, chunks=(12, 1, 2)),
                                                          rate_name="1MHz", start_name="iso", fc=400 * u.MHz, pol_type="circular"), [xd]))
    # flagged data: a masked array whose hidden values are not zero (neither the values nor the mask may change)
    md = rng.normal(size=(12, 2)) + 1j * rng.normal(size=(12, 2))
    mm = np.zeros((12, 2), bool)
    mm[2, 0] = mm[5, 1] = mm[11, 0] = True
    ma = np.ma.MaskedArray(md, mask=mm)
    out.append(("baseband c128 masked array", factory.make("BasebandSignal", ma, rate_name="1MHz", start_name="iso", fc=400 * u.MHz), [md, mm]))
    s1 = rng.normal(size=12)
    out.append(("signal f64 1-D", factory.make("Signal", s1, rate_name="3kHz", start_name="none"), [s1]))
    return out


INITIAL = [n for n, _, _ in mk_initial()]


def floaty(z):
    return z.dtype.kind in "fc"


def _shift_arr(z):
    n = z.sample_shape[0] if z.sample_shape else 1
    return np.array([0.5, 3e-13, -1.25, 2.0][:n] if n > 1 else [0.5])


def _chirp(z):
    zz = type(z).like(z, np.array(np.asarray(z.data.compute() if isinstance(z.data, da.Array) else z.data)))
    return np.array(np.asarray(catalogue._dm_for(z).chirp_from_signal(zz)))


ARG_OPS = [
    ("time_shift(array with ~0 entry)", lambda z: floaty(z) and z.ndim >= 2, lambda z: (_shift_arr(z),),
     lambda z, s: pb.time_shift(z, s)),
    ("time_shift(array, crop)", lambda z: floaty(z) and z.ndim >= 2, lambda z: (_shift_arr(z),), lambda z, s: pb.time_shift(z, s, crop=True)),
    ("time_shift(view of a table)", lambda z: floaty(z) and z.ndim >= 2,
     lambda z: (np.tile(_shift_arr(z), (3, 1)),), lambda z, tab: pb.time_shift(z, tab[1])),
    ("time_shift(Quantity array)", lambda z: floaty(z) and z.ndim >= 2, lambda z: (_shift_arr(z) / z.sample_rate.to_value(u.Hz) * u.s,),
     lambda z, q: pb.time_shift(z, q)),
    ("time_shift(list)", lambda z: floaty(z) and z.ndim >= 2, lambda z: (list(_shift_arr(z)),), lambda z, s: pb.time_shift(z, s)),
    ("freq_shift(Quantity array)", catalogue.is_bb, lambda z: ((_shift_arr(z) * z.sample_rate.to_value(u.Hz) / 12) * u.Hz,),
     lambda z, q: pb.freq_shift(z, q)),
    ("snippet(Quantity)", floaty, lambda z: ((2.25 / z.sample_rate).to(u.us),), lambda z, q: pb.snippet(z, q, 3)),
    ("snippet(Time)", lambda z: floaty(z) and z.start_time is not None, lambda z: (z.start_time + 2.5 / z.sample_rate,),
     lambda z, t: pb.snippet(z, t, 3)),
    ("coherent(supplied chirp array)", catalogue.is_bb, lambda z: (_chirp(z), catalogue._dm_for(z), z.max_freq),
     lambda z, c, dm, ref: pb.coherent_dedispersion(z, dm, chirp=c, ref_freq=ref)),
    ("coherent(DM, ref Quantity)", catalogue.is_bb, lambda z: (catalogue._dm_for(z, 1.9), z.min_freq + 0 * u.Hz),
     lambda z, dm, ref: pb.coherent_dedispersion(z, dm, ref_freq=ref)),
    ("incoherent(DM, ref Quantity)", catalogue.is_radio, lambda z: (catalogue._dm_for(z, 3.1), z.channel_freqs[0]),
     lambda z, dm, ref: pb.incoherent_dedispersion(z, dm, ref_freq=ref)),
    ("concatenate(list of pieces)", lambda z: True, lambda z: ([z[:5], z[5:7], z[7:]],), lambda z, ps: pb.concatenate(ps)),
    # the axis given as a 0-d integer array (a spelling numpy.concatenate accepts), negative and positive
    ("concatenate(axis as 0-d array, negative)", lambda z: True, lambda z: ([z[:5], z[5:]], np.array(-z.ndim)),
     lambda z, ps, ax: pb.concatenate(ps, axis=ax)),
    ("concatenate(axis as 0-d array, last axis)", lambda z: z.ndim >= 3, lambda z: ([z, z], np.array(-1)),
     lambda z, ps, ax: pb.concatenate(ps, axis=ax)),
    ("concatenate(pieces with different meta)", lambda z: True,
     lambda z: ([type(z).like(z[:5], meta={"a": 1, "shared": [1]}), type(z).like(z[5:7], meta={"b": [2], "shared": [9]}),
                 type(z).like(z[7:], meta=None)],), lambda z, ps: pb.concatenate(ps)),
    ("ERR concatenate(pieces with different meta, gap)", lambda z: True,
     lambda z: ([type(z).like(z[:5], meta={"a": 1}), type(z).like(z[6:], meta={"b": [2]})],), lambda z, ps: pb.concatenate(ps)),
    ("freq_shift(everything out of band)", catalogue.is_bb, lambda z: (1.0 * z.sample_rate, -3 * z.sample_rate),
     lambda z, q, q2: (pb.freq_shift(z, q), pb.freq_shift(z, q2), pb.freq_shift(z, catalogue.per_chan(z, [1.0, -2.0]) * z.sample_rate))),
    ("time_shift(everything shifted out)", floaty, lambda z: (float(len(z)), -3.0 * len(z)),
     lambda z, a, b: (pb.time_shift(z, a), pb.time_shift(z, b), pb.time_shift(z, a, crop=True))),
    ("ufunc with where= and no out=", floaty, lambda z: (np.arange(int(np.prod(z.shape))).reshape(z.shape) % 2 == 0,),
     lambda z, m: (np.multiply(z, 10.0, where=m), np.add(z, z, where=m), np.negative(z, where=m))),
    ("Phase / FractionalPhase built from the caller's arrays", lambda z: True,
     lambda z: (pb.Phase(np.array([20.0, 3.0, -7.0]), np.array([-0.3, 0.45, 0.2])), np.array([1.0, 2.5]), np.array([0.75, -0.25]) * u.cycle),
     lambda z, ph, a, q: (pb.pulsar.FractionalPhase(ph, wrap_angle=1 * u.cycle), pb.pulsar.FractionalPhase(ph), pb.pulsar.FractionalPhase(q, wrap_angle=0.25 * u.cycle),
                          pb.Phase(a, a / 8), pb.Phase(q), ph * a[:1], ph + q[:1], ph.sort(), ph % (0.3 * u.cycle), ph.to_string(precision=3))),
    # conversions of a Phase to plain numbers, with and without permission to share memory
    ("Phase converted to other dtypes (astype with copy=False, asarray, value)", lambda z: True,
     lambda z: (pb.Phase(np.array([20.0, 3.0, -7.0]), np.array([-0.3, 0.45, 0.2])), pb.Phase(5.0, 0.25)),
     lambda z, ph, p0: (ph.astype(np.float64, copy=False), ph.astype("f8", copy=False), ph.astype(float, copy=False), ph.astype(float),
                        ph.astype(np.float32, copy=False), ph.astype(np.float64, copy=True), ph.cycle, ph.value, ph.to_value(u.deg),
                        p0.astype(np.float64, copy=False), float(p0.value), ph.int, ph.frac, ph.copy())),
    # text forms of a signal whose meta holds arrays and Quantities of more than a few elements
    ("text forms of a signal with arrays in meta", lambda z: True,
     lambda z: (type(z).like(z, meta={"gains": np.arange(40.0) * 1.5, "freqs": np.linspace(1, 2, 48) * u.GHz, "flags": np.zeros((6, 7), bool),
                                      "k": 1}),),
     lambda z, z2: (str(z2), repr(z2), f"{z2}", "{!s:>10}".format(z2), z2._attr_repr() if hasattr(z2, "_attr_repr") else None)),
    ("contains(Time array)", lambda z: True, lambda z: (Time(["2021-01-01T00:00:00", "2021-01-01T00:00:00.000005"], precision=9),),
     lambda z, t: z.contains(t)),
    ("ufunc with ndarray operand", lambda z: True, lambda z: (np.ones(z.shape[-1]),), lambda z, a: z * a),
]


def all_ops(z):
    ops = [(n, (lambda zz: ()), (lambda zz, f=f: f(zz))) for n, f in catalogue.applicable(z)]
    ops += [(n, mk, fn) for n, ap, mk, fn in ARG_OPS if ap(z)]
    return ops


def state_key(v):
    if isinstance(v, pb.Signal):
        d = v.data
        if isinstance(d, da.Array):
            return ("sig", type(v).__name__, d.shape, str(d.dtype), "dask", repr(v.sample_rate), v.freq_align if hasattr(v, "freq_align") else None)
        a = np.asarray(d)
        return ("sig", type(v).__name__, a.shape, str(a.dtype), hashlib.blake2b(a.tobytes(), digest_size=12).digest(),
                repr(v.sample_rate), None if v.start_time is None else (v.start_time.jd1, v.start_time.jd2))
    return None


def force(out):
    """Make lazily built results execute (so that tasks touching the inputs actually run)."""
    outs = out if isinstance(out, tuple) else (out,)
    for o in outs:
        try:
            if isinstance(o, pb.Signal) and isinstance(o.data, da.Array):
                o.data.compute()
            elif isinstance(o, da.Array):
                o.compute()
        except Exception:
            pass


def bfs_case(case, res):
    initial = mk_initial()
    root_name, root, _ = initial[case["root"]]
    pool = [(n, s) for n, s, _ in initial]
    bases = [b for _, _, bs in initial for b in bs]
    watched = [("input: " + n, s) for n, s in pool] + [(f"base buffer {i}", b) for i, b in enumerate(bases)]
    snaps = [snap_value(v) for _, v in watched]
    seen = set()
    frontier = [((root_name,), root)]
    for depth in range(case["depth"]):
        nxt = []
        for path, z in frontier:
            for name, mk, fn in all_ops(z):
                try:
                    args = mk(z)
                except Exception:
                    continue
                asnap = [snap_value(a) for a in args]
                zsnap = snap_value(z)
                hist = list(path) + [name]
                sub = {"history": hist}
                try:
                    out = fn(z, *args)
                    force(out)
                    raised = None
                except Exception as e:
                    out, raised = None, e
                res.transitions += 1
                res.traces += 1
                if raised is not None:
                    res.hits["operation raised (inputs must survive too)"] += 1
                # ---- invariant
                for (wname, wv), s0 in zip(watched, snaps):
                    if snap_value(wv) != s0:
                        res.violation(f"mutated|{name}|{wname.split(':')[0]}", f"after history {hist} the {wname} differs from its "
                                      f"snapshot ({'call raised ' + type(raised).__name__ if raised else 'call returned'})", case, sub)
                        # re-arm so that one mutation is reported once
                        snaps[:] = [snap_value(v) for _, v in watched]
                        break
                if snap_value(z) != zsnap:
                    res.violation(f"mutated|{name}|operand signal", f"history {hist}: the signal passed to the call changed "
                                  f"({root_name} lineage)", case, sub)
                for a, s0, i in zip(args, asnap, range(len(args))):
                    if snap_value(a) != s0:
                        res.violation(f"mutated|{name}|argument", f"history {hist}: argument {i} ({type(a).__name__}) was modified by "
                                      f"the call", case, sub)
                # ---- successors
                outs = out if isinstance(out, tuple) else (out,)
                for o in outs:
                    k = state_key(o)
                    if k is None:
                        continue
                    res.outcome(k[1:4])
                    if k in seen:
                        res.hits["state reached again (de-duplicated)"] += 1
                        continue
                    seen.add(k)
                    res.state((case["root"],) + tuple(str(x) for x in k))
                    if isinstance(o.data, np.ndarray) and any(np.shares_memory(o.data, b) for b in bases if isinstance(b, np.ndarray)):
                        res.hits["output aliases an input buffer"] += 1
                    if len(o) >= 8:
                        nxt.append((tuple(hist), o))
        frontier = nxt
    res.sample({"root": root_name, "depth": case["depth"], "example_history": list(frontier[-1][0]) if frontier else [root_name]}, 1)


def sanctioned_case(case, res):
    """The only sanctioned mutation: out= / in-place naming a signal -- and then ONLY that signal changes."""
    initial = mk_initial()
    for n, s, bs in initial:
        if isinstance(s.data, da.Array) or s.dtype.kind not in "fc":
            continue
        target = type(s).like(s, np.array(s.data))                     # an independent buffer
        others = [("input " + n, s)] + [("base", b) for b in bs]
        snaps = [snap_value(v) for _, v in others]
        before = snap_value(target)
        target += 1
        np.multiply(s, 2, out=target)
        res.transitions += 2
        res.traces += 1
        res.state(("sanctioned", n))
        if snap_value(target) == before:
            res.violation("sanctioned|target not written", f"in-place forms did not write into their target ({n})", case, None)
        for (wn, wv), s0 in zip(others, snaps):
            if snap_value(wv) != s0:
                res.violation("sanctioned|other object changed", f"out=/in-place on a separate target changed {wn}", case, {"input": n})
        res.hits["sanctioned in-place write changes only its target"] += 1
    res.sample({"sanctioned": "z += 1; np.multiply(s, 2, out=z)"}, 1)


def check_case(case):
    res = report.Result()
    {"bfs": bfs_case, "sanctioned": sanctioned_case}[case["kind"]](case, res)
    return res


def main(argv=None):
    return report.run_check(
        PID, gen_cases=gen_cases, check_case=check_case, describe=describe,
        required_hits=["operation raised (inputs must survive too)", "state reached again (de-duplicated)",
                       "output aliases an input buffer", "sanctioned in-place write changes only its target"],
        assumptions=["snapshots hash the logical content (tobytes) plus dtype/shape/strides/writeable flag and repr of every public "
                     "attribute", "explicit out=/in-place targets are outside the BFS alphabet (NumPy view semantics make their "
                     "aliases change too) and are checked separately on an independent buffer"],
        argv=argv, chunksize=1)


if __name__ == "__main__":
    sys.exit(main())
