"""C11 -- readers are position-faithful, stateless and agree with the underlying file.

Files: the four shipped samples (VDIF real 2-bit, DADA complex, 4-file GUPPI, LSB DADA Stokes) plus files the
check writes into a scratch directory it removes (DADA 8-bit complex/real, USB/LSB, npol/nchan 1-2, Stokes with
BW>0/<0, payload encoding (time, pol, chan)) and a lower-sideband GUPPI set (OBSBW sign flipped in the cards).
Enumerated: every k in [0, len] through absolute and relative times; boundary (offset, n) sets; EVERY sequence of
<= 3 reads over an 8-read alphabet (eager and Dask mixed) on one reader object; 2 threads x reads on one reader
under the cooperative scheduler with <= 1 (quick) / 2 (thorough) preemptions, with and without a lock; joint
Dask graphs of two readers; one free-running real-thread pass.
Oracle: direct baseband reads / known payload; long-double real_to_complex for Hilbert-converted data.
"""
import itertools
import os
import re
import shutil
import sys
import tempfile
import threading
from fractions import Fraction as F

import numpy as np
import astropy.units as u
from astropy.time import Time
import baseband
from baseband import dada
import dask
import dask.array as da

from pbmc import bind_repo, report, invariants, sched_threads, REPO
from pbmc.exact import time_days as T, hz, ULP_T
from pbmc.oracles import dft
from checks.c19 import oracle_matrix

pb = bind_repo()
PID = "C11"
DATA = REPO + "/tests/data/"
TRACE_FILES = (REPO + "/pulsarbat/readers/", REPO + "/pulsarbat/utils.py")
# (threads, preemption bound) pairs explored per reader configuration
BOUNDS = {"quick": dict(hist_depth=3, sched=[(2, 1)]), "thorough": dict(hist_depth=4, sched=[(2, 2), (3, 1)])}


def describe(tier):
    b = BOUNDS[tier]
    return {
        "bounds": {"readers": READER_NAMES, "offset<->time": "every k in [0, len] (absolute, relative s/us, k-0.4, k+0.4)",
                   "boundary reads": "offsets {0,1,2,frame+-1,file boundary+-1,len-2,len-1,len} x n {0,1,2,3,frame,frame+1}",
                   "history depth": b["hist_depth"], "history alphabet": 8, "(threads, preemption bound)": b["sched"]},
        "alphabet": ["offset_at(time_at(k))", "read(offset, n)", "read(..., use_dask=True[, chunks])", "dask_read", "read(lock=)",
                     "sequences of reads on one reader", "concurrent reads (explored schedules)", "joint Dask graph of two readers",
                     "contains / stop_time"],
        "rule": "state = (reader, k) / (reader, offset, n) / (reader, read history) / (reader, schedule); every read compared with "
                "the reference for its own (offset, n) obtained independently of the reader under test",
    }


# ------------------------------------------------------------------------------------------------------------
def write_dada(path, data, complex_data, bw, nchan, npol, sr=16 * u.MHz, freq=1400.0):
    hdr = dada.DADAHeader.fromvalues(time=Time("2020-01-01T00:00:00"), sample_rate=sr, samples_per_frame=data.shape[0] // 2, bps=8,
                                     complex_data=complex_data, sample_shape=(npol, nchan), sideband=bw > 0, offset=0 * u.s,
                                     FREQ=freq, TELESCOPE="X", SOURCE="Y")
    hdr["BW"] = bw
    with dada.open(path, "ws", header0=hdr, squeeze=False) as fw:
        fw.write(data)


def gen_payload(n, npol, nchan, complex_data):
    t = np.arange(n)[:, None, None]
    p = np.arange(npol)[None, :, None]
    c = np.arange(nchan)[None, None, :]
    re = ((t * 3 + p * 17 + c * 5) % 200 - 100).astype(np.float32)
    if complex_data:
        im = ((t * 7 + p * 3 + c * 11) % 190 - 95).astype(np.float32)
        return (re + 1j * im).astype(np.complex64)
    return re


def flip_guppi(src_files, dst_dir):
    out = []
    for f in src_files:
        b = open(f, "rb").read()
        b2, nsub = re.subn(rb"(OBSBW   =\s*) (\d)", rb"\1-\2", b)
        assert nsub >= 1 and len(b2) == len(b)
        p = os.path.join(dst_dir, os.path.basename(f))
        open(p, "wb").write(b2)
        out.append(p)
    return out


class Spec:
    """How to build a reader and how to obtain the reference data independently of it."""

    def __init__(self, name, make, raw_open, transform, meta, hilbert=False, frame=None, file_len=None):
        self.name, self.make, self.raw_open, self.transform, self.meta = name, make, raw_open, transform, meta
        self.hilbert, self.frame, self.file_len = hilbert, frame, file_len

    def reference(self, offset, n):
        """The samples read(offset, n) must return, obtained with baseband directly."""
        with self.raw_open() as fh:
            if self.hilbert:
                fh.seek(2 * offset)
                raw = fh.read(2 * n)
                # the quarter-rate mixing ramp is counted from the start of the FILE: raw sample 2*offset + k carries
                # (-i)^(2*offset + k), i.e. the block read at an odd offset is minus the conversion of the block taken alone
                # (only then does one absolute sample have one value, whatever read it comes from)
                return self.transform(raw) * (-1) ** (offset % 2)
            else:
                fh.seek(offset)
                raw = fh.read(n)
        return self.transform(raw)


READER_NAMES = ["vdif-real", "dada-complex", "dada-complex-mask", "guppi", "stokes-lsb", "gen-dada-c-usb", "gen-dada-c-lsb",
                "gen-dada-real", "gen-stokes-usb", "gen-stokes-lsb", "guppi-lsb"]


def hilbert_ref(raw):
    """long-double real_to_complex along axis 0 (definition-based, from C19)."""
    N = raw.shape[0]
    if N == 0:
        return np.zeros((0,) + raw.shape[1:], np.complex64)
    R = oracle_matrix(N)
    y = np.tensordot(R, raw.astype(dft.LD), axes=(1, 0))
    return y


def build_specs(tmp, only=None):
    specs = {}

    def want(n):
        return only is None or n in only

    if want("vdif-real"):
        specs["vdif-real"] = Spec(
            "vdif-real",
            lambda: pb.readers.BasebandReader(DATA + "sample.vdif", signal_type=pb.BasebandSignal,
                                              signal_kwargs=dict(center_freq=1 * u.GHz, freq_align="bottom")),
            lambda: baseband.open(DATA + "sample.vdif", "rs"), hilbert_ref,
            dict(cls="BasebandSignal", sample_rate=F(16 * 10 ** 6), length=20000, dtype=np.complex64), hilbert=True, frame=10000)
    if want("dada-complex"):
        specs["dada-complex"] = Spec(
            "dada-complex", lambda: pb.readers.BasebandReader(DATA + "sample.dada"),
            lambda: baseband.open(DATA + "sample.dada", "rs"), lambda r: r,
            dict(cls="Signal", sample_rate=F(16 * 10 ** 6), length=16000, dtype=np.complex64), frame=16000)
    if want("dada-complex-mask"):
        specs["dada-complex-mask"] = Spec(
            "dada-complex-mask", lambda: pb.readers.BasebandReader(DATA + "sample.dada", lower_sideband=[False, True]),
            lambda: baseband.open(DATA + "sample.dada", "rs"),
            lambda r: np.stack([r[:, 0], r[:, 1].conj()], axis=1),
            dict(cls="Signal", sample_rate=F(16 * 10 ** 6), length=16000, dtype=np.complex64), frame=16000)
    gfiles = [DATA + "fake.%d.raw" % i for i in range(4)]
    if want("guppi"):
        specs["guppi"] = Spec(
            "guppi", lambda: pb.readers.GUPPIRawReader(gfiles),
            lambda: baseband.open(gfiles, "rs", format="guppi", squeeze=False), lambda r: r.transpose(0, 2, 1),
            dict(cls="DualPolarizationSignal", sample_rate=F(3125000), length=32768, dtype=np.complex64, center_freq=F("344.1875") * 10 ** 6,
                 pol_type="linear", freq_align="center", nchan=4), frame=1024, file_len=8192)
    if want("guppi-lsb"):
        d = os.path.join(tmp, "glsb")
        os.makedirs(d, exist_ok=True)
        lfiles = flip_guppi(gfiles, d)
        specs["guppi-lsb"] = Spec(
            "guppi-lsb", lambda: pb.readers.GUPPIRawReader(lfiles),
            lambda: baseband.open(gfiles, "rs", format="guppi", squeeze=False),
            # OBSBW < 0: file channel i sits at OBSFREQ - OBSBW/2 + (i + 1/2) CHAN_BW, i.e. channels DESCEND in frequency and each is
            # spectrally inverted; the signal's labels ascend, so the channel axis is flipped and the samples conjugated
            lambda r: r.transpose(0, 2, 1)[:, ::-1].conj(),
            dict(cls="DualPolarizationSignal", sample_rate=F(3125000), length=32768, dtype=np.complex64, center_freq=F("344.1875") * 10 ** 6,
                 pol_type="linear", freq_align="center", nchan=4), frame=1024, file_len=8192)
    if want("stokes-lsb"):
        specs["stokes-lsb"] = Spec(
            "stokes-lsb", lambda: pb.readers.DADAStokesReader(DATA + "stokes_ef.dada"),
            lambda: baseband.open(DATA + "stokes_ef.dada", "rs", format="dada", squeeze=False),
            lambda r: np.flip(r, axis=-1).transpose(0, 2, 1),
            dict(cls="FullStokesSignal", sample_rate=F("7629.39453125"), length=16, dtype=np.float32, center_freq=None,
                 freq_align="top", nchan=2048), frame=16)
    n = 64
    gen = {"gen-dada-c-usb": (True, 16.0, 2, 2), "gen-dada-c-lsb": (True, -16.0, 1, 2), "gen-dada-real": (False, 16.0, 2, 1)}
    for nm, (cplx, bw, nchan, npol) in gen.items():
        if not want(nm):
            continue
        path = os.path.join(tmp, nm + ".dada")
        data = gen_payload(n, npol, nchan, cplx)
        write_dada(path, data, cplx, bw, nchan, npol)
        lsb = bw < 0
        if cplx:
            specs[nm] = Spec(nm, (lambda path=path, lsb=lsb: pb.readers.BasebandReader(path, squeeze=False, lower_sideband=lsb)),
                             (lambda path=path: baseband.open(path, "rs", squeeze=False)),
                             (lambda r, lsb=lsb: r.conj() if lsb else r),
                             dict(cls="Signal", sample_rate=F(16 * 10 ** 6), length=n, dtype=np.complex64, payload=data, lsb=lsb), frame=n // 2)
        else:
            specs[nm] = Spec(nm, (lambda path=path: pb.readers.BasebandReader(path, squeeze=False)),
                             (lambda path=path: baseband.open(path, "rs", squeeze=False)), hilbert_ref,
                             dict(cls="Signal", sample_rate=F(8 * 10 ** 6), length=n // 2, dtype=np.complex64), hilbert=True, frame=n // 4)
    for nm, bw in (("gen-stokes-usb", 12.0), ("gen-stokes-lsb", -12.0)):
        if not want(nm):
            continue
        path = os.path.join(tmp, nm + ".dada")
        data = gen_payload(32, 4, 4, False)
        write_dada(path, data, False, bw, 4, 4, sr=2 * u.MHz, freq=1400.0)
        lsb = bw < 0
        specs[nm] = Spec(nm, (lambda path=path: pb.readers.DADAStokesReader(path)),
                         (lambda path=path: baseband.open(path, "rs", format="dada", squeeze=False)),
                         (lambda r, lsb=lsb: (np.flip(r, axis=-1) if lsb else r).transpose(0, 2, 1)),
                         dict(cls="FullStokesSignal", sample_rate=F(2 * 10 ** 6), length=32, dtype=np.float32, center_freq=F(1400 * 10 ** 6),
                              chan_bw=F(3 * 10 ** 6), freq_align="top" if lsb else "bottom", nchan=4, payload=data, lsb=lsb), frame=16)
    return specs


def gen_cases(tier, seed):
    b = BOUNDS[tier]
    for nm in READER_NAMES:
        big = nm in ("guppi", "guppi-lsb", "vdif-real", "dada-complex", "dada-complex-mask")
        dup = tier == "quick" and nm in ("guppi-lsb", "dada-complex-mask")     # same position arithmetic as their twins
        for part in range(8 if big else 1):
            if dup and part:
                continue
            yield {"kind": "position", "reader": nm, "part": part, "parts": 8 if big else 1}
        yield {"kind": "reads", "reader": nm}
        deep = tier == "thorough" or nm in ("vdif-real", "dada-complex-mask", "guppi-lsb", "gen-stokes-lsb", "gen-dada-real",
                                            "gen-dada-c-lsb")
        for first in range(8):
            yield {"kind": "history", "reader": nm, "first": first,
                   "depth": (b["hist_depth"] if nm not in ("guppi", "guppi-lsb", "vdif-real") else 3) if deep else 2}
    for nm in ("dada-complex", "dada-complex-mask", "gen-dada-real", "guppi", "gen-stokes-lsb", "vdif-real"):
        for lock in (False, True):
            for nthreads, bound in b["sched"]:
                # partition of the schedule space by the point of the first preemption (None = the default schedule + bound 0)
                yield {"kind": "sched", "reader": nm, "lock": lock, "threads": nthreads, "bound": 0, "first": None}
                nparts = 8 if bound == 1 else 48
                for chunk in range(nparts):
                    yield {"kind": "sched", "reader": nm, "lock": lock, "threads": nthreads, "bound": bound, "first": chunk,
                           "parts": nparts}
    yield {"kind": "joint"}
    yield {"kind": "freerun"}
    yield {"kind": "leap"}
    yield {"kind": "names"}


def data_ok(spec, got, want):
    got = np.asarray(got)
    if got.shape != want.shape:
        return f"shape {got.shape} vs {want.shape}"
    if spec.hilbert:
        tol = 64 * float(np.finfo(np.float32).eps) * max(1.0, float(np.max(np.abs(want))) if want.size else 1.0)
        e = float(np.max(np.abs(got.astype(dft.CLD) - want))) if want.size else 0.0
        return None if e <= tol else f"max |read - analytic conversion of the raw samples| = {e:.3g} (budget {tol:.3g})"
    return None if np.array_equal(got, want.astype(got.dtype)) else "samples differ from the file"


def check_signal(res, case, spec, r, z, offset, n, site, sub, values=True):
    m = spec.meta
    if type(z).__name__ != m["cls"]:
        res.violation(f"{site}|type", f"{type(z).__name__}, expected {m['cls']} [{sub}]", case, sub)
        return
    if len(z) != n:
        res.violation(f"{site}|length", f"read({offset}, {n}) returned {len(z)} samples [{sub}]", case, sub)
        return
    br = invariants.check(z)
    if br and not (n == 0 and False):
        res.violation(f"{site}|contract|{br[0][0]}", f"{br} [{sub}]", case, sub)
    if abs(hz(z.sample_rate) - m["sample_rate"]) > m["sample_rate"] * F(4, 2 ** 52):
        res.violation(f"{site}|sample_rate", f"{z.sample_rate!r}, file says {float(m['sample_rate'])} Hz [{sub}]", case, sub)
    ta = r.time_at(offset)
    if z.start_time is None or abs(T(z.start_time) - T(ta)) > ULP_T:
        res.violation(f"{site}|start_time != time_at(offset)", f"[{sub}]", case, sub)
    with spec.raw_open() as fh:
        t0 = T(fh.start_time)
    sr_samp = m["sample_rate"]
    if abs(T(z.start_time) - t0 - F(offset) / sr_samp / 86400) > 2 * ULP_T + F(offset, 2 ** 50) / sr_samp / 86400:
        res.violation(f"{site}|start_time vs file", f"start_time is {float((T(z.start_time) - t0) * 86400 * sr_samp):.6g} samples after "
                      f"the file start, offset is {offset} [{sub}]", case, sub)
    for k in ("pol_type", "freq_align"):
        if k in m and getattr(z, k) != m[k]:
            res.violation(f"{site}|{k}", f"{getattr(z, k)!r}, expected {m[k]!r} [{sub}]", case, sub)
    if m.get("center_freq") is not None and abs(hz(z.center_freq) - m["center_freq"]) > abs(m["center_freq"]) * F(4, 2 ** 52):
        res.violation(f"{site}|center_freq", f"{z.center_freq!r} [{sub}]", case, sub)
    if "chan_bw" in m and abs(hz(z.chan_bw) - m["chan_bw"]) > m["chan_bw"] * F(4, 2 ** 52):
        res.violation(f"{site}|chan_bw", f"{z.chan_bw!r} [{sub}]", case, sub)
    if "nchan" in m and z.nchan != m["nchan"]:
        res.violation(f"{site}|nchan", f"{z.nchan} [{sub}]", case, sub)
    if z.dtype != m["dtype"]:
        res.violation(f"{site}|dtype", f"{z.dtype} [{sub}]", case, sub)
    if values and (not spec.hilbert or n <= 48):
        d = z.data.compute() if isinstance(z.data, da.Array) else z.data
        why = data_ok(spec, d, spec.reference(offset, n))
        if why:
            res.violation(f"{site}|values", f"read({offset}, {n}): {why} [{sub}]", case, sub)
        if "payload" in m and n:
            # known content written by the check: (time, pol, chan) order, conjugation, channel flip
            pay = m["payload"][offset:offset + n]
            if m["cls"] == "FullStokesSignal":
                exp = (np.flip(pay, axis=-1) if m["lsb"] else pay).transpose(0, 2, 1)
            else:
                exp = pay.conj() if m["lsb"] else pay
            if not np.array_equal(np.asarray(d), exp):
                res.violation(f"{site}|known payload", f"read({offset}, {n}) does not return the content that was written "
                              f"(axis order / sideband handling) [{sub}]", case, sub)
            res.hits["known payload verified"] += 1


def position_case(case, res, spec, r):
    L = len(r)
    m = spec.meta
    if L != m["length"] or r.shape[0] != L:
        res.violation("position|length", f"len(reader) = {L}, file has {m['length']} samples", case, None)
    ks = range(case.get("part", 0), L + 1, case.get("parts", 1))
    sr = r.sample_rate
    for k in ks:
        res.state((spec.name, "k", k))
        try:
            a = r.offset_at(r.time_at(k))
            b_ = r.offset_at(r.time_at(k, unit=u.s))
            c = r.offset_at(r.time_at(k, unit=u.us))
        except Exception as e:
            res.violation("position|raised", f"k={k}: {type(e).__name__}: {e}", case, {"k": k})
            continue
        res.transitions += 3
        res.traces += 1
        if (a, b_, c) != (k, k, k):
            res.violation("position|offset_at(time_at(k)) != k", f"k={k}: absolute {a}, relative(s) {b_}, relative(us) {c}", case, {"k": k})
        if k % 7 == 0 or k in (0, 1, L - 1, L):
            # the same instant written on other time scales
            tk = r.time_at(k)
            for scale in ("tai", "tt"):
                res.transitions += 1
                try:
                    got = r.offset_at(getattr(tk, scale))
                except Exception as e:
                    res.violation("position|time on another scale raised", f"offset_at(time_at({k}).{scale}): {type(e).__name__}: {e}", case,
                                  {"k": k, "scale": scale})
                    continue
                if got != k:
                    res.violation("position|time on another scale", f"offset_at(time_at({k}).{scale}) = {got}", case, {"k": k, "scale": scale})
                else:
                    res.hits["time given on another scale"] += 1
        if k % 97 == 0 or k in (0, 1, L - 1, L):
            for d, want in ((-0.4, k), (0.4, k)):
                if 0 <= k + d <= L:
                    got = r.offset_at((k + d) / sr)
                    res.transitions += 1
                    if got != want:
                        res.violation("position|nearest sample", f"offset_at(({k}{d:+}) samples) = {got}, nearest is {want}", case,
                                      {"k": k, "d": d})
    for bad in (-1, L + 1, -5, L + 100):
        for form in ("relative", "absolute"):
            res.transitions += 1
            try:
                r.offset_at(bad / sr if form == "relative" else r.start_time + bad / sr)
                res.violation("position|out of range accepted", f"offset_at({bad} samples, {form}) returned", case, {"k": bad})
            except Exception:
                res.hits["out-of-range time rejected"] += 1
    st = r.stop_time
    if abs(T(st) - T(r.time_at(L))) > 0 or not bool(r.contains(r.start_time)) or bool(r.contains(st)) or (st in r) or \
            not (r.time_at(L - 1) in r):
        res.violation("position|contains/stop_time", "stop_time / contains inconsistent with [start, stop)", case, None)
    res.sample({"reader": spec.name, "len": L, "k": "0..len"}, 1)


def boundary_sets(spec, L):
    offs = {0, 1, 2, L - 2, L - 1, L}
    if spec.frame:
        offs |= {spec.frame - 1, spec.frame, spec.frame + 1}
    if spec.file_len:
        offs |= {spec.file_len - 1, spec.file_len, spec.file_len + 1, 2 * spec.file_len - 1}
    ns = {0, 1, 2, 3, 5}
    if spec.frame and spec.frame <= 2048:
        ns |= {spec.frame, spec.frame + 1}
    return sorted(o for o in offs if 0 <= o <= L), sorted(ns)


def reads_case(case, res, spec, r):
    L = len(r)
    offs, ns = boundary_sets(spec, L)
    for o, n in itertools.product(offs + [-1, L + 1], ns + [-1, L + 1]):
        sub = {"offset": o, "n": n}
        res.state((spec.name, "read", o, n))
        valid = o >= 0 and n >= 0 and o + n <= L
        for form in ("eager", "dask"):
            try:
                z = r.read(o, n) if form == "eager" else r.dask_read(o, n)
                exc = None
            except Exception as e:
                z, exc = None, e
            res.transitions += 1
            res.traces += 1
            if not valid:
                if exc is None:
                    res.violation(f"read|{form}|out of range accepted", f"read({o}, {n}) with len {L} returned {z!r}", case, sub)
                else:
                    res.hits["out-of-range read rejected"] += 1
                continue
            if exc is not None:
                res.violation(f"read|{form}|raised", f"read({o}, {n}): {type(exc).__name__}: {exc}", case, sub)
                continue
            if form == "dask" and not isinstance(z.data, da.Array):
                res.violation("read|dask|not lazy", f"dask_read returned {type(z.data).__name__} data", case, sub)
            check_signal(res, case, spec, r, z, o, n, f"read|{form}", sub)
        if valid and not spec.hilbert and n >= 2:
            a, b_ = r.read(o, n // 2), r.read(o + n // 2, n - n // 2)
            whole = r.read(o, n)
            res.transitions += 3
            if not np.array_equal(np.concatenate([a.data, b_.data]), whole.data):
                res.violation("read|adjacent reads", f"read({o},{n // 2}) + read({o + n // 2},{n - n // 2}) != read({o},{n})", case, sub)
            try:
                j = pb.concatenate([a, b_])
                if abs(T(j.start_time) - T(whole.start_time)) > ULP_T:
                    res.violation("read|adjacent reads start", "concatenated adjacent reads have a different start_time", case, sub)
            except Exception as e:
                res.violation("read|adjacent reads not contiguous", f"{type(e).__name__}: {e}", case, sub)
            res.hits["adjacent reads join"] += 1
    # offset / n given as NumPy integer scalars of several widths denote the same request (no wrap-around)
    import itertools as _it
    for o, n in ((3, 5), (min(L - 10, 17000), 10), (min(L, 16000), 20000), (10, 250), (L - 2, 2), (L - 1, 2)):
        if o < 0:
            continue
        valid = o + n <= L
        for ot, nt in ((np.int16, np.int16), (np.uint8, np.uint8), (np.int32, np.int64), (np.uint16, np.int8), (np.int64, np.uint32)):
            try:
                oo, nn = ot(o), nt(n)
            except OverflowError:
                continue
            if int(oo) != o or int(nn) != n:
                continue
            for form in ("eager", "dask"):
                sub = {"offset": f"{ot.__name__}({o})", "n": f"{nt.__name__}({n})", "form": form}
                try:
                    z = r.read(oo, nn) if form == "eager" else r.read(oo, nn, use_dask=True)
                    if form == "dask":
                        z = z.compute()
                    exc = None
                except Exception as e:
                    z, exc = None, e
                res.transitions += 1
                if not valid:
                    if exc is None:
                        res.violation("read|numpy integer|out of range accepted", f"read({sub['offset']}, {sub['n']}) with len {L} returned "
                                      f"{len(z)} samples", case, sub)
                    continue
                if exc is not None:
                    res.violation("read|numpy integer|raised", f"read({sub['offset']}, {sub['n']}): {type(exc).__name__}: {exc}", case, sub)
                    continue
                ref = r.read(o, n)
                if len(z) != n or not np.array_equal(np.asarray(z.data), np.asarray(ref.data)) or \
                        abs(T(z.start_time) - T(ref.start_time)) > 0:
                    res.violation("read|numpy integer|differs", f"read({sub['offset']}, {sub['n']}) differs from read({o}, {n})", case, sub)
        res.hits["numpy integer offsets"] += 1
    # chunks= argument
    n = min(8, L)
    zc = r.read(0, n, use_dask=True, chunks=(-1,) + (1,) * (len(r.shape) - 1))
    res.transitions += 1
    if not isinstance(zc.data, da.Array) or not np.array_equal(zc.data.compute(), r.read(0, n).data):
        res.violation("read|dask chunks", "read(use_dask=True, chunks=...) differs from the eager read", case, None)
    # every time-chunk size of a Dask read: lazily built, equal to the eager read of the same span
    for o_, n_ in ((0, min(8, L)), (min(3, max(L - 24, 0)), min(24, L - min(3, max(L - 24, 0))))):
        if n_ <= 0:
            continue
        ref = np.asarray(r.read(o_, n_).data)
        for tc in sorted({1, 2, 3, 5, max(1, n_ // 2), max(1, n_ - 1), n_}):
            small = int(np.prod(r.shape[1:])) <= 16
            for rest in ((tuple(1 if small else max(1, s_ // 2) for s_ in r.shape[1:])), (-1,) * (len(r.shape) - 1)):
                res.transitions += 1
                try:
                    zc = r.read(o_, n_, use_dask=True, chunks=(tc,) + rest)
                    got = zc.data.compute()
                except Exception as e:
                    res.violation("read|dask chunks raised", f"read({o_}, {n_}, chunks=({tc},...)): {type(e).__name__}: {e}", case,
                                  {"offset": o_, "n": n_, "chunk": tc})
                    continue
                if not isinstance(zc.data, da.Array) or got.shape != ref.shape or not np.array_equal(got, ref):
                    res.violation("read|dask chunks", f"read({o_}, {n_}, use_dask=True, chunks=({tc},...)) differs from the eager read "
                                  f"(max diff {float(np.max(np.abs(got - ref))) if got.shape == ref.shape else 'shape'})", case,
                                  {"offset": o_, "n": n_, "chunk": tc})
                elif tc < n_:
                    res.hits["dask read split into several time chunks"] += 1
    res.sample({"reader": spec.name, "offsets": offs, "n": ns}, 1)


def mask_alias_check(res, case):
    """A per-channel sideband mask passed as an ndarray and later modified by the caller must not change the reader."""
    m = np.array([False, True])
    r = pb.readers.BasebandReader(DATA + "sample.dada", lower_sideband=m)
    a = np.array(r.read(4, 6).data)
    d = r.read(4, 6, use_dask=True)
    m[:] = [True, False]
    b_ = np.array(r.read(4, 6).data)
    res.transitions += 3
    if not np.array_equal(a, b_) or not np.array_equal(d.data.compute(), a):
        res.violation("history|caller's mask array aliased", "after the caller modified the mask array it had passed, the same read "
                      "returns different data", case, None)
    lst = [False, True]
    r2 = pb.readers.BasebandReader(DATA + "sample.dada", lower_sideband=lst)
    a2 = np.array(r2.read(4, 6).data)
    lst[0] = True
    if not np.array_equal(a2, np.array(r2.read(4, 6).data)) or not np.array_equal(a2, a):
        res.violation("history|caller's mask list aliased", "reader follows later changes of the list passed as lower_sideband", case, None)
    res.hits["mask argument modified by the caller afterwards"] += 1


def history_alphabet(spec, L):
    f = spec.frame or 8
    alpha = [("e", 0, 4), ("e", 2, 4), ("e", 0, 4), ("d", 2, 4), ("e", min(f - 1, L - 4), 3), ("d", 0, 4), ("e", L - 3, 3), ("e", 1, 0)]
    return alpha


def history_case(case, res, spec, r):
    L = len(r)
    alpha = history_alphabet(spec, L)
    ref = {}
    fresh = spec.make()
    for form, o, n in alpha:
        ref[(o, n)] = np.array(fresh.read(o, n).data)
        why = data_ok(spec, ref[(o, n)], spec.reference(o, n)) if (not spec.hilbert or n <= 48) else None
        if why:
            res.violation("history|reference read", f"fresh reader read({o},{n}): {why}", case, None)
    depth = case["depth"]
    for d in range(1, depth + 1):
        for seq in itertools.product(range(len(alpha)), repeat=d):
            if seq[0] != case.get("first", seq[0]):
                continue
            rr = spec.make() if d == depth and seq[0] == 0 and seq[-1] == 0 else r    # mostly ONE long-lived reader object
            pending = []
            res.state((spec.name, "hist", seq))
            res.traces += 1
            for i in seq:
                form, o, n = alpha[i]
                try:
                    z = rr.read(o, n) if form == "e" else rr.read(o, n, use_dask=True)
                except Exception as e:
                    res.violation("history|raised", f"history {[alpha[j] for j in seq]}: {type(e).__name__}: {e}", case, {"seq": list(seq)})
                    break
                res.transitions += 1
                if form == "e":
                    if not np.array_equal(np.asarray(z.data), ref[(o, n)]):
                        res.violation("history|read depends on earlier reads", f"after history {[alpha[j] for j in seq]} read({o},{n}) "
                                      f"differs from the same read on a fresh reader", case, {"seq": list(seq)})
                        break
                else:
                    pending.append((z, o, n))
            # lazily built reads are computed after the whole history (and in reverse order)
            for z, o, n in reversed(pending):
                if not np.array_equal(z.data.compute(), ref[(o, n)]):
                    res.violation("history|dask read depends on history", f"history {[alpha[j] for j in seq]}: dask read({o},{n}) "
                                  f"computed later differs from the eager read", case, {"seq": list(seq)})
                    break
            if len(set(seq)) < len(seq):
                res.hits["same read repeated in a history"] += 1
    if spec.name == "dada-complex-mask" and case.get("first", 0) == 0:
        mask_alias_check(res, case)
    res.sample({"reader": spec.name, "alphabet": alpha, "depth": depth}, 1)


def sched_bodies(spec, r, nthreads, use_lock):
    reads = [(10, 8), (max(0, len(r) - 12), 8), (10, 8)][:nthreads]
    if spec.name in ("stokes-lsb",):
        reads = [(0, 4), (8, 4), (0, 4)][:nthreads]

    def make(s):
        lock = sched_threads.SchedLock(s) if use_lock else None

        def body(o, n):
            def run():
                kw = {"lock": lock} if lock is not None else {}
                a = np.array(r.read(o, n, **kw).data)
                b_ = np.array(r.read(o + 1, n - 1, **kw).data)
                return a, b_
            return run
        return [body(o, n) for o, n in reads]
    return make, reads


def sched_case(case, res, spec, r):
    make, reads = sched_bodies(spec, r, case["threads"], case["lock"])
    fresh = spec.make()
    ref = [(np.array(fresh.read(o, n).data), np.array(fresh.read(o + 1, n - 1).data)) for o, n in reads]

    def check(results, s):
        ok = True
        for i, (a, b_) in enumerate(ref):
            st, val = results.get("T%d" % i, ("exc", None))
            if st != "ok" or not np.array_equal(val[0], a) or not np.array_equal(val[1], b_):
                ok = False
                sched = [t[1] for t in s.trace]
                where = [t[3] for t in s.trace if t[1] != 0]
                res.violation(f"schedule|{'lock' if case['lock'] else 'no lock'}|wrong data", f"thread {i} read{reads[i]} got "
                              f"{'an exception ' + repr(val) if st != 'ok' else 'different data'} under schedule with preemptions at "
                              f"{where}", case, {"choices": sched})
        if s.error is not None:
            ok = False
            res.violation("schedule|deadlock", repr(s.error), case, {"choices": [t[1] for t in s.trace]})
        return ok

    if case["first"] is None:
        st = sched_threads.explore(make, TRACE_FILES, 0, check)
        res.info[f"sched_points_{spec.name}_{case['threads']}t_{'lock' if case['lock'] else 'nolock'}"] = st["points"]
    else:
        # chunk k of `parts` over the first-preemption point index
        s0 = sched_threads.Sched([], TRACE_FILES)
        s0.run(make(s0))
        npts = len(s0.trace)
        st = {"executions": 0, "transitions": 0, "outcomes": set(), "points": npts, "divergences": 0}
        for i in range(case["first"], npts, case.get("parts", 8)):
            si = sched_threads.explore(make, TRACE_FILES, case["bound"], check, first_deviation=i)
            for k in ("executions", "transitions", "divergences"):
                st[k] += si[k]
            st["outcomes"] |= si["outcomes"]
    res.traces += st["executions"]
    res.transitions += st["transitions"]
    for i in range(st["executions"]):
        res.state((spec.name, case["lock"], case["threads"], case["first"], i))
    res.outcomes |= {str(o) for o in st["outcomes"]}
    if st["divergences"]:
        res.violation("schedule|replay divergence", f"{st['divergences']} executions diverged while replaying a prefix (harness "
                      f"non-determinism)", case, None)
    if st["executions"]:
        res.hits["schedules explored"] += st["executions"]
    if case["first"] is not None and st["executions"]:
        res.hits["schedules with a preemption"] += st["executions"]
    res.sample({"reader": spec.name, "threads": case["threads"], "lock": case["lock"], "scheduling_points": st["points"],
                "executions": st["executions"]}, 1)


def joint_case(case, res, specs):
    """Lazy reads of two different readers in one Dask graph must stay separate."""
    pairs = [("dada-complex", "dada-complex-mask"), ("guppi", "guppi-lsb"), ("gen-stokes-usb", "gen-stokes-lsb"),
             ("gen-dada-c-usb", "dada-complex")]
    for a, b_ in pairs:
        ra, rb = specs[a].make(), specs[b_].make()
        o, n = 4, 6
        za, zb = ra.dask_read(o, n), rb.dask_read(o, n)
        ea, eb = ra.read(o, n).data, rb.read(o, n).data
        res.transitions += 4
        res.traces += 1
        res.state(("joint", a, b_))
        for sched in ("synchronous", "threads"):
            ca, cb = dask.compute(za.data, zb.data, scheduler=sched)
            if not np.array_equal(ca, ea) or not np.array_equal(cb, eb):
                res.violation("joint graph|readers mixed up", f"dask reads of {a} and {b_} at the same (offset, n) computed together "
                              f"({sched}) do not equal their eager reads", case, {"pair": [a, b_]})
        if za.data.shape == zb.data.shape:
            s = (za.data + 2 * zb.data).compute()
            if not np.array_equal(s, ea + 2 * eb):
                res.violation("joint graph|combined expression", f"za + 2*zb for {a}, {b_} differs from the eager arithmetic", case,
                              {"pair": [a, b_]})
        res.hits["two readers in one graph"] += 1
    res.sample({"joint": pairs}, 1)


def freerun_case(case, res, specs):
    """Not coverage: the same bodies on real, free-running threads (50 repetitions, start barrier).

    Python's warnings.catch_warnings (used inside astropy/baseband) is not thread-safe: concurrent use can leave the
    process-wide filters at 'error', so that an unrelated DeprecationWarning is raised as an exception.  That is an
    artefact of the environment, not of the reader: Warning-typed exceptions are retried and the filters re-armed.
    """
    import warnings

    def rearm():
        warnings.resetwarnings()
        warnings.simplefilter("ignore")

    for nm in ("dada-complex-mask", "guppi", "gen-dada-real"):
        spec = specs[nm]
        rearm()
        r = spec.make()
        L = len(r)
        reads = [(10, 8), (L - 12, 8), (10, 8), (11, 7)]
        ref = [np.array(r.read(o, n).data) for o, n in reads]
        bad = []
        for rep in range(50):
            bar = threading.Barrier(len(reads))
            out = [None] * len(reads)

            def body(i):
                bar.wait()
                for _ in range(4):
                    for attempt in range(20):
                        try:
                            out[i] = np.array(r.read(*reads[i]).data)
                            break
                        except Warning:
                            res.skipped["free-running: Warning raised as error (thread-unsafe warnings filters), retried"] += 1
                            rearm()
            ths = [threading.Thread(target=body, args=(i,)) for i in range(len(reads))]
            [t.start() for t in ths]
            [t.join() for t in ths]
            rearm()
            res.transitions += 4 * len(reads)
            if any(o is None or not np.array_equal(o, w) for o, w in zip(out, ref)):
                bad.append(rep)
        res.traces += 50
        res.state(("freerun", nm))
        if bad:
            res.violation("free-running threads|wrong data", f"{nm}: {len(bad)} of 50 repetitions returned wrong data", case, {"reader": nm})
        res.hits["free-running pass"] += 1
    rearm()
    res.sample({"freerun": "4 real threads x 4 reads x 50 repetitions, 3 readers (reported as a smoke pass, not coverage)"}, 1)


class _SynthReader(pb.readers.BaseReader):
    """A minimal reader on the public base class: sample k has the value k."""

    def __init__(self, n, rate, start):
        super().__init__(shape=(n,), dtype=np.float32, sample_rate=rate, start_time=start)

    def _read_array(self, offset, n):
        return np.arange(offset, offset + n, dtype=np.float32)


def leap_case(case, res):
    """A stream that runs through the leap second at the end of 2016: positions are counted in elapsed time."""
    # a reader WITHOUT a start time (the base class's default): relative times still round-trip, absolute ones are refused
    for rate, n in ((1 * u.kHz, 5000), (2.5 * u.Hz, 400), ((1e6 / 3) * u.Hz, 100000)):
        r0 = _SynthReader(n, rate, None)
        srv = rate.to_value(u.Hz)
        for k in (0, 1, n // 3, n - 1, n):
            res.transitions += 3
            res.state(("no start", str(rate), k))
            for unit in (u.s, u.ms):
                try:
                    tk = r0.time_at(k, unit=unit)
                    back = r0.offset_at(tk)
                except Exception as e:
                    res.violation("no start time|relative time raised", f"k={k} at {rate}, unit={unit}: {type(e).__name__}: {e}", case,
                                  {"k": k, "rate": str(rate)})
                    continue
                if not isinstance(tk, u.Quantity) or abs(tk.to_value(u.s) - k / srv) > 1e-9 * max(1.0, k / srv) or back != k:
                    res.violation("no start time|relative time", f"time_at({k}, unit={unit}) = {tk!r}, offset_at of it = {back!r} "
                                  f"(expected {k / srv!r} s and {k}) at {rate}", case, {"k": k, "rate": str(rate)})
            if k < n:
                try:
                    z0 = r0.read(k, min(3, n - k))
                    if z0.start_time is not None or len(z0) != min(3, n - k) or float(np.asarray(z0.data)[0]) != k:
                        res.violation("no start time|read", f"read({k}, ..) gives start_time {z0.start_time!r}, first sample "
                                      f"{np.asarray(z0.data)[:1]!r}", case, {"k": k})
                except Exception as e:
                    res.violation("no start time|read raised", f"{type(e).__name__}: {e}", case, {"k": k})
        res.hits["reader without a start time"] += 1
    # (also rates that are not a whole number of Hz, on an ordinary day, over many seconds)
    for rate, t0, n in ((1 * u.kHz, "2016-12-31T23:59:30", 90000), (1 * u.MHz, "2016-12-31T23:59:59.5", 3000000),
                        (2 * u.Hz, "2016-12-31T12:00:00", 100000), (2.5 * u.Hz, "2021-03-04T05:06:07", 5000),
                        (44.1 * u.Hz, "2021-03-04T05:06:07", 50000), (7629.39453125 * u.Hz, "2021-03-04T05:06:07", 300000),
                        ((1e6 / 3) * u.Hz, "2021-03-04T05:06:07", 4000000)):
        r = _SynthReader(n, rate, Time(t0, format="isot", scale="utc", precision=9))
        srv = rate.to_value(u.Hz)
        for k in sorted({0, 1, n // 3, int(29.999 * srv), int(30 * srv), int(30.5 * srv) + 1, int(31.001 * srv), n // 2, n - 1, n} & set(range(n + 1))
                        | {0, n // 3, n // 2, n - 1, n}):
            res.transitions += 3
            res.traces += 1
            res.state(("leap", str(rate), k))
            try:
                tk = r.time_at(k)
                back = (r.offset_at(tk), r.offset_at(tk.tai), r.offset_at(r.time_at(k, unit=u.s)))
            except Exception as e:
                res.violation("leap|raised", f"k={k} at {rate}: {type(e).__name__}: {e}", case, {"k": k})
                continue
            if back != (k, k, k):
                res.violation("leap|offset_at(time_at(k)) != k", f"k={k} at {rate} from {t0}: {back}", case, {"k": k, "rate": str(rate)})
                continue
            el = (tk - r.start_time).to_value(u.s)
            if abs(el - k / srv) > 1e-9 + 2e-11 * 86400:
                res.violation("leap|time_at", f"time_at({k}) is {el!r} s after the start, expected {k / srv!r}", case, {"k": k})
                continue
            if k < n:
                # a reader written to the documented hook signature _read_array(offset, n, /): Dask reads with chunks=
                m_ = min(12, n - k)
                try:
                    zd1 = r.read(k, m_, use_dask=True, chunks=(5,))
                    zd2 = r.dask_read(k, m_, chunks=(4,))
                    ze = r.read(k, m_)
                    res.transitions += 3
                    if not (np.array_equal(zd1.data.compute(), np.asarray(ze.data)) and np.array_equal(zd2.data.compute(), np.asarray(ze.data))
                            and (zd1.data.numblocks[0] > 1 or m_ <= 5)):
                        res.violation("base reader|dask read with chunks differs", f"k={k}", case, {"k": k})
                    else:
                        res.hits["reader on the documented hook signature, chunks="] += 1
                except Exception as e:
                    res.violation("base reader|dask read with chunks raised", f"read({k}, {m_}, use_dask=True, chunks=(5,)) on a reader "
                                  f"implementing _read_array(offset, n, /): {type(e).__name__}: {e}", case, {"k": k})
                z = r.read(k, min(4, n - k))
                if abs((z.start_time - tk).to_value(u.s)) > 1e-12 or float(np.asarray(z.data)[0]) != float(np.float32(k)):
                    res.violation("leap|read", f"read({k}, ..) starts {(z.start_time - tk).to_value(u.s)!r} s from time_at({k}) / wrong "
                                  f"sample", case, {"k": k})
                    continue
            res.hits["stream running through a leap second"] += 1


def mask2d_check(case, res):
    """A (polarisation, channel) sideband mask that differs along both axes: exactly the flagged streams are conjugated."""
    src = [DATA + "fake.%d.raw" % i for i in range(4)]
    with baseband.open(src, "rs", format="guppi", squeeze=False) as fh:
        fh.seek(8180)
        raw = fh.read(24)                      # (time, pol, chan), straddling the first file boundary
    for mi, mask in enumerate((np.array([[False, True, False, False], [True, False, False, True]]),
                               np.array([[True, True, True, False], [False, False, False, False]]),
                               np.array([[False, False, False, False], [False, False, True, False]]))):
        for dask_ in (False, True):
            res.transitions += 1
            try:
                r = pb.readers.BasebandReader(src, format="guppi", squeeze=False, lower_sideband=mask)
                z = r.read(8180, 24, use_dask=dask_)
                got = np.asarray(z.data.compute() if dask_ else z.data)
            except Exception as e:
                res.violation("mask 2-d|raised", f"{type(e).__name__}: {e}", case, {"mask": mi})
                continue
            want = np.where(mask[None], raw.conj(), raw)
            if got.shape != want.shape or not np.array_equal(got, want):
                res.violation("mask 2-d|wrong streams conjugated", f"mask #{mi} {mask.astype(int).tolist()} (dask={dask_}): the streams that "
                              f"come back conjugated are not exactly the flagged ones", case, {"mask": mi, "dask": dask_})
            else:
                res.hits["two-dimensional sideband mask"] += 1


def names_case(case, res, tmp):
    mask2d_check(case, res)
    """The multi-file sequence under names whose alphabetical order is not their time order (scan.8 .. scan.11): the reader
    must use the files in the order given."""
    d = os.path.join(tmp, "names")
    os.makedirs(d, exist_ok=True)
    src = [DATA + "fake.%d.raw" % i for i in range(4)]
    dst = [os.path.join(d, "scan.%d.raw" % i) for i in (8, 9, 10, 11)]
    for a, b_ in zip(src, dst):
        shutil.copyfile(a, b_)
    ref = pb.readers.GUPPIRawReader(src)
    for form, arg in (("list", list(dst)), ("tuple", tuple(dst))):
        res.transitions += 1
        try:
            r = pb.readers.GUPPIRawReader(arg)
            bad = None
            if len(r) != len(ref) or abs(T(r.start_time) - T(ref.start_time)) > 0:
                bad = f"len {len(r)} / start {r.start_time.isot}, expected {len(ref)} / {ref.start_time.isot}"
            else:
                for o, n in ((0, 8), (8190, 6), (16380, 10), (24570, 12), (len(ref) - 5, 5)):
                    a, b_ = r.read(o, n), ref.read(o, n)
                    res.transitions += 2
                    if not np.array_equal(np.asarray(a.data), np.asarray(b_.data)) or abs(T(a.start_time) - T(b_.start_time)) > 0:
                        bad = f"read({o}, {n}) differs from the same files under their original names"
                        break
            if bad:
                res.violation("names|files not used in the order given", f"{form} of scan.8, scan.9, scan.10, scan.11: {bad}", case,
                              {"form": form})
            else:
                res.hits["file names whose sorted order is not their time order"] += 1
        except Exception as e:
            res.violation("names|raised", f"{form}: {type(e).__name__}: {e}", case, {"form": form})


def check_case(case):
    res = report.Result()
    tmp = tempfile.mkdtemp(prefix="pbmc_c11_")
    try:
        if case["kind"] == "leap":
            leap_case(case, res)
        elif case["kind"] == "names":
            names_case(case, res, tmp)
        elif case["kind"] in ("joint", "freerun"):
            specs = build_specs(tmp)
            {"joint": joint_case, "freerun": freerun_case}[case["kind"]](case, res, specs)
        else:
            spec = build_specs(tmp, only={case["reader"]})[case["reader"]]
            r = spec.make()
            {"position": position_case, "reads": reads_case, "history": history_case, "sched": sched_case}[case["kind"]](case, res, spec, r)
    finally:
        shutil.rmtree(tmp, ignore_errors=True)
    return res


def main(argv=None):
    return report.run_check(
        PID, gen_cases=gen_cases, check_case=check_case, describe=describe,
        required_hits=["out-of-range time rejected", "out-of-range read rejected", "adjacent reads join", "known payload verified",
                       "same read repeated in a history", "numpy integer offsets", "time given on another scale", "dask read split into several time chunks", "mask argument modified by the caller afterwards", "stream running through a leap second", "two-dimensional sideband mask", "reader on the documented hook signature, chunks=",
                       "file names whose sorted order is not their time order", "schedules explored", "schedules with a preemption",
                       "two readers in one graph", "free-running pass", "reader without a start time"],
        assumptions=["thread interleavings are explored at Python-line granularity inside pulsarbat/readers/*.py and utils.py; code in "
                     "baseband/numpy runs atomically between two such lines; real parallelism inside C code is not modelled",
                     "the free-running pass is a smoke run, not coverage", "Hilbert-converted values are compared for n <= 48 "
                     "(O(N^2) long-double reference)"],
        argv=argv, chunksize=1)


if __name__ == "__main__":
    sys.exit(main())
