"""C12 -- snippet returns exactly n samples starting exactly at the requested time.

Enumerated: N x real/complex x sample shape x start/none x rate x EVERY t on the quarter-sample grid in
[-1, N+1] x EVERY n in [-1, N+1] x the forms of t (int, float, time Quantity, absolute Time); plus long
signals (large offsets) against a float64 FFT reference.  Oracle: slice for whole counts, long-double DFT
interpolation at the instant the given form denotes exactly; ValueError outside.
"""
import math
import sys
from fractions import Fraction as F

import numpy as np
import astropy.units as u
from astropy.time import Time

from pbmc import bind_repo, report, factory
from pbmc.exact import time_days as T, hz, ULP_T, fr, unit_scale
from pbmc.oracles import dft
from checks.c03 import make_signal, meta_same

pb = bind_repo()
PID = "C12"
EPS32 = float(np.finfo(np.float32).eps)

BOUNDS = {
    "quick": dict(Ns=[1, 2, 5, 8, 13], dtypes=["float64", "complex128", "complex64", "int16", "int8"], shapes=[(), (2,), (3, 2)],
                  rates=[("1Hz", "s"), ("3kHz", "ms"), ("800MHz", "us")], long_N=[40000]),
    "thorough": dict(Ns=[1, 2, 3, 4, 5, 7, 8, 12, 13, 16], dtypes=["float32", "float64", "complex64", "complex128", "int16", "int64"],
                     shapes=[(), (2,), (3, 2)], rates=[("1Hz", "s"), ("3kHz", "ms"), ("800MHz", "us"), ("third_Hz", "s")],
                     long_N=[40000, 65537]),
}


def describe(tier):
    b = BOUNDS[tier]
    return {
        "bounds": {"N": b["Ns"], "dtypes": b["dtypes"], "sample_shapes": [list(s) for s in b["shapes"]],
                   "rates/units": b["rates"], "t": "every quarter sample in [-1, N+1]", "n": "every integer in [-1, N+1]",
                   "long signals": b["long_N"]},
        "alphabet": ["snippet(z, int t, n)", "snippet(z, float t, n)", "snippet(z, Quantity t, n)", "snippet(z, Time t, n)"],
        "rule": "state = (N, dtype, shape, start, rate, t, n, form); one real call each; in range: length n, start_time = "
                "start + t_eff/sr, values = z[t:t+n] bit-exactly for whole counts else long-double DFT interpolation on a "
                "complete basis; out of range / n<0 / Time without start -> ValueError",
    }


def gen_cases(tier, seed):
    b = BOUNDS[tier]
    for N in b["Ns"]:
        for dt in b["dtypes"]:
            for ss in b["shapes"]:
                for rate, unit in b["rates"]:
                    for start in ("iso", "none"):
                        yield {"kind": "grid", "N": N, "dtype": dt, "ss": list(ss), "rate": rate, "unit": unit,
                               "start": start}
    for N in b["long_N"]:
        for dt in ("complex128", "float64"):
            yield {"kind": "long", "N": N, "dtype": dt, "seed": seed}
    for cls in ("Signal", "BasebandSignal"):
        for start in ("iso", "none"):
            yield {"kind": "narrow", "cls": cls, "start": start}
    for rate in ("10 Hz", "3 Hz", "7 Hz", "0.3 Hz", "44.1 kHz", "1.1 MHz", "1 Hz", "2.5 MHz"):
        yield {"kind": "tails", "rate": rate}
    for rate in ("7.3 MHz", "10 Hz", "3 kHz"):
        for base in (134217600, 100000000):
            yield {"kind": "huge", "rate": rate, "base": base}


_OPS = {}


def interp_rows(N, t, n, nyq):
    """Rows of the band-limited interpolation operator giving x(t + k), k = 0..n-1 (t exact Fraction)."""
    i = math.floor(t)
    key = (N, t - i, nyq)
    if key not in _OPS:
        _OPS[key] = dft.delay_operator(N, -(t - i), nyq)      # advance by the fractional part
    return _OPS[key][i:i + n]


def check_case(case):
    res = report.Result()
    if case["kind"] == "long":
        return long_case(case, res)
    if case["kind"] == "narrow":
        return narrow_case(case, res)
    if case["kind"] == "tails":
        return tails_case(case, res)
    if case["kind"] == "huge":
        return huge_case(case, res)
    N, ss = case["N"], tuple(case["ss"])
    dtype = np.dtype(case["dtype"])
    is_c = dtype.kind == "c"
    B = 2 * N if is_c else N
    eye = np.eye(N)
    Xb = np.concatenate([eye, 1j * eye], axis=1) if is_c else eye
    basis = np.broadcast_to(Xb.reshape((N,) + (1,) * len(ss) + (B,)), (N,) + ss + (B,)).astype(dtype)
    z = make_signal(N, dtype, ss + (B,), np.array(basis), rate=case["rate"])
    if case["start"] == "none":
        z = type(z).like(z, start_time=None)
    XL = Xb.astype(dft.CLD if is_c else dft.LD)
    srx = hz(z.sample_rate)
    unit = u.Unit(case["unit"])
    usc = unit_scale(unit, u.s)
    T0 = None if z.start_time is None else T(z.start_time)
    zdata = np.asarray(z.data)

    tgrid = [F(tq, 4) for tq in range(-4, 4 * (N + 1) + 1)]
    # requests a few nano-samples past / before a whole sample (the library treats |shift| < 1e-8 as no shift)
    tgrid += [F(float(i) + 5e-9) for i in range(0, N, max(1, N // 3))] + [F(float(i) - 4e-9) for i in range(1, N + 1, max(1, N // 3))]
    for t in tgrid:
        tq = str(t)
        forms = []
        if t.denominator == 1:
            forms.append(("int", int(t), t, F(0)))
        near_whole = t.denominator > 4
        forms.append(("float", float(t), t, F(1, 10 ** 8) if near_whole else F(0)))
        if near_whole:
            res.hits["request a few nano-samples off a whole sample"] += 1
        q = (float(t) / z.sample_rate).to(unit)
        tq_exact = fr(q.value) * usc * srx
        forms.append(("quantity", q, tq_exact, abs(tq_exact) / 10 ** 15 + F(1, 10 ** 12)))
        if z.start_time is not None:
            tt = z.start_time + float(t) / z.sample_rate
            tt_exact = (T(tt) - T0) * 86400 * srx
            forms.append(("time", tt, tt_exact, 4 * ULP_T * 86400 * srx + abs(tt_exact) / 10 ** 15))
            if t.denominator <= 4 and t.numerator % 3 == 0:
                # the same instant written on the TAI / TT scale
                forms.append(("time", getattr(tt, ("tai", "tt")[(t.numerator // 3) % 2]), tt_exact,
                              12 * ULP_T * 86400 * srx + abs(tt_exact) / 10 ** 15))
                res.hits["Time given on another scale"] += 1
        else:
            forms.append(("time-nostart", Time("2021-01-01T00:00:00", precision=9) + float(t) * u.s, None, None))
        for n in range(-1, N + 2):
            for form, targ, teff, delta in forms:
                sub = {"t": str(t), "n": n, "form": form}
                res.state((N, str(dtype), ss, case["rate"], case["start"], tq, n, form))
                one_call(res, case, z, zdata, XL, N, is_c, T0, srx, targ, teff, delta, n, form, sub)
    # unusual but valid argument forms denote the same request
    if N >= 5:
        ref_w = pb.snippet(z, 2, 3)
        ref_f = pb.snippet(z, 1.25, 3)
        for form, t_, n_, ref in (("np.int64 t, np.int64 n", np.int64(2), np.int64(3), ref_w), ("np.int8 n", 2, np.int8(3), ref_w),
                                  ("0-d array t", np.array(2), 3, ref_w), ("np.float32 t", np.float32(1.25), 3, ref_f),
                                  ("np.float64 t, np.uint8 n", np.float64(1.25), np.uint8(3), ref_f)):
            try:
                got = pb.snippet(z, t_, n_)
            except Exception as e:
                res.violation(f"snippet|argument form {form} raised", f"{type(e).__name__}: {e}", case, {"form": form})
                continue
            res.transitions += 1
            same_t = (got.start_time is None and ref.start_time is None) or \
                (got.start_time is not None and abs(T(got.start_time) - T(ref.start_time)) <= 2 * ULP_T)
            if len(got) != len(ref) or float(np.max(np.abs(np.asarray(got.data) - np.asarray(ref.data)))) > 16 * EPS32 or not same_t:
                res.violation(f"snippet|argument form {form}", f"request given as {form} differs from the plain Python-number form", case,
                              {"form": form})
        for bad in (2.5, np.float64(3.0), "3", None):
            res.transitions += 1
            try:
                pb.snippet(z, 1, bad)
                if not (isinstance(bad, float) and float(bad).is_integer()):
                    res.violation("snippet|non-integer n accepted", f"n = {bad!r} accepted", case, {"n": repr(bad)})
            except Exception:
                pass
        res.hits["argument forms"] += 1
    # assignment history on one object: read dt, assign another sample_rate, then a fractional request
    if N >= 5 and T0 is not None:
        zz = type(z).like(z)
        _ = (zz.dt, zz.time_length)
        try:
            pb.snippet(zz, 1.5, 2)
            zz.sample_rate = zz.sample_rate / 4
            out = pb.snippet(zz, 2.5, 2)
            res.transitions += 2
            sr2 = hz(zz.sample_rate)
            err = abs(T(out.start_time) - T0 - F(5, 2) / sr2 / 86400)
            if err > 6 * ULP_T + F(1, 10 ** 6) / sr2 / 86400:
                res.violation("snippet|assignment history|start_time", f"after reading dt and assigning sample_rate/4, snippet(z, 2.5, 2) "
                              f"starts {float((T(out.start_time) - T0) * 86400 * sr2):.6g} samples after z.start_time", case, None)
            res.hits["sample_rate assigned before a fractional request"] += 1
        except Exception as e:
            res.violation("snippet|assignment history|raised", f"{type(e).__name__}: {e}", case, None)
    # one buffer, contents changed between two fractional requests (explicit in-place writes are the caller's right): the second
    # answer must be that of a freshly built signal holding the new contents
    if N >= 5:
        buf = np.array(zdata)
        zs = type(z).like(z, buf)
        try:
            first = pb.snippet(zs, 1.25, 3)
            for step in range(2):
                if step == 0:
                    np.asarray(zs.data)[...] = np.asarray(zs.data)[::-1].copy() * 2
                else:
                    zs = type(z).like(z, buf)                      # a NEW signal object around the same (re-filled) buffer
                    buf[...] = np.roll(buf, 1, axis=0) + 1
                again = pb.snippet(zs, 1.25, 3)
                fresh = pb.snippet(type(z).like(z, np.array(np.asarray(zs.data))), 1.25, 3)
                res.transitions += 3
                if not np.array_equal(np.asarray(again.data), np.asarray(fresh.data)):
                    res.violation("snippet|history|buffer contents changed between requests", f"after the signal's buffer was overwritten in "
                                  f"place ({('same object', 'new object, same buffer')[step]}) snippet(z, 1.25, 3) still answers from the "
                                  f"old contents (max diff {float(np.max(np.abs(np.asarray(again.data) - np.asarray(fresh.data)))):.3g})",
                                  case, {"step": step})
                    break
            else:
                res.hits["buffer overwritten between requests"] += 1
        except Exception as e:
            res.violation("snippet|history|raised", f"{type(e).__name__}: {e}", case, None)
    res.sample({"N": N, "dtype": str(dtype), "ss": list(ss), "rate": case["rate"], "start": case["start"],
                "example": "snippet(z, 2.25 samples as %s, 3)" % case["unit"]}, 1)
    return res


def one_call(res, case, z, zdata, XL, N, is_c, T0, srx, targ, teff, delta, n, form, sub):
    site = f"snippet|{form}"
    try:
        out = pb.snippet(z, targ, n)
        exc = None
    except Exception as e:
        out, exc = None, e
    res.transitions += 1
    res.traces += 1
    if form == "time-nostart":
        if not isinstance(exc, ValueError):
            res.violation(f"{site}|accepted", f"Time given for a start-less signal: {exc!r} / returned {out!r} [{sub}]",
                          case, sub)
        else:
            res.hits["Time on start-less signal rejected"] += 1
        return
    exact_form = form in ("int", "float") and not (delta and delta > 0)
    # a count within 1e-8 of a whole sample (for a Time: within its resolution of ~38 ps) denotes that sample: requests that
    # close to the boundary may be served or refused
    db = F(0) if exact_form else max(delta, F(1, 10 ** 8) + (F(38, 10 ** 12) * srx if form == "time" else 0))
    in_range = (n >= 0 and teff >= 0 and teff + n <= N)
    on_boundary = (not exact_form) and n >= 0 and (abs(teff) <= db or abs(teff + n - N) <= db) and \
        -db <= teff and teff + n <= N + db
    if on_boundary:
        res.skipped["Quantity/Time request exactly on the boundary (float conversion may land either side)"] += 1
        if exc is not None:
            if not isinstance(exc, ValueError):
                res.violation(f"{site}|wrong exception", f"{type(exc).__name__}: {exc} [{sub}]", case, sub)
            return
    elif not in_range:
        if exc is None:
            res.violation(f"{site}|out of range accepted", f"t={float(teff)} n={n} len={N}: returned {len(out)} samples "
                          f"instead of raising ValueError [{sub}]", case, sub)
        elif not isinstance(exc, ValueError):
            res.violation(f"{site}|wrong exception", f"{type(exc).__name__}: {exc} (ValueError expected) [{sub}]", case, sub)
        else:
            res.hits["out of range rejected"] += 1
        return
    if exc is not None:
        res.violation(f"{site}|raised in range", f"t={float(teff)} n={n} len={N}: {type(exc).__name__}: {exc} [{sub}]",
                      case, sub)
        return
    if len(out) != n:
        res.violation(f"{site}|length", f"t={float(teff)} n={n}: returned {len(out)} samples [{sub}]", case, sub)
        return
    m = meta_same(z, out)
    if m and z.dtype.kind in "iu" and type(out) is type(z) and out.dtype.kind == "f" and m.startswith("type/dtype"):
        m = None            # interpolated values of integer samples are necessarily floating point
    if m:
        res.violation(f"{site}|metadata", f"{m} [{sub}]", case, sub)
    if (out.start_time is None) != (T0 is None):
        res.violation(f"{site}|start none-ness", f"start_time {out.start_time!r} [{sub}]", case, sub)
        return
    if n == 0:
        res.hits["n = 0"] += 1
    if T0 is not None:
        err = abs(T(out.start_time) - T0 - teff / srx / 86400)
        tol = 6 * ULP_T + F(1, 10 ** 6) / srx / 86400 + (delta or 0) / srx / 86400
        if not res.ratio("start_time err / budget", err, tol):
            res.violation(f"{site}|start_time", f"start_time = start + {float((T(out.start_time) - T0) * 86400 * srx):.9g} "
                          f"samples, requested t = {float(teff):.9g} [{sub}]", case, sub)
    if n == 0:
        return
    y = np.asarray(out.data)
    if exact_form and teff.denominator == 1:
        i = int(teff)
        res.hits["whole-sample count (bit-exact slice)"] += 1
        if not np.array_equal(y, zdata[i:i + n]):
            res.violation(f"{site}|whole-sample not exact", f"t={i} n={n}: result differs from z[t:t+n] [{sub}]", case, sub)
        return
    # DFT interpolation at t_eff + k on the basis block (same block for every element of the sample shape)
    ss = y.shape[1:-1]
    convs = [False, True] if (is_c and N % 2 == 0 and teff.denominator != 1) else [False]
    exps = []
    for nyq in convs:
        E = interp_rows(N, teff, n, nyq) @ XL
        exps.append(E if is_c else E.real)
    # (double-precision accuracy for everything but single-precision data: integers of any width are transformed in double)
    single = np.dtype(case["dtype"]).name in ("float16", "float32", "complex64")
    tol = (16 * EPS32 if single else 4096 * float(np.finfo(np.float64).eps) * max(1.0, float(np.max(np.abs(XL))))) + math.pi * float(delta)
    if abs(teff - round(teff)) <= F(1, 10 ** 8):
        # (a request within the documented resolution of 1e-8 sample of a whole sample denotes that sample)
        tol += math.pi * 1e-8 * max(1.0, float(np.max(np.abs(XL))))
    worst = 0.0
    for idx in (np.ndindex(*ss) if ss else [()]):
        col = y[(slice(None),) + idx].astype(dft.CLD)
        e = min(float(np.max(np.abs(col - E))) for E in exps)
        worst = max(worst, e)
    res.hits["fractional (DFT interpolation)"] += teff.denominator != 1
    if not res.ratio("interp err / (16 eps32 + pi delta)", worst, tol):
        res.violation(f"{site}|values", f"t={float(teff):.9g} n={n}: max |out - band-limited interpolation| = {worst:.3g} "
                      f"(budget {tol:.3g}) [{sub}]", case, sub)


def tails_case(case, res):
    """EVERY whole-sample request z[k:k+n] (tails, heads and middles of a 32-sample signal) written as a duration k*dt and as an
    absolute Time start + k*dt at generic rates: the same samples as the count form (the conversion back to samples carries a
    rounding error of a few 1e-16, far below the time resolution)."""
    rate = u.Quantity(case["rate"])
    L = 32
    z = pb.Signal(np.arange(1.0, L + 1), sample_rate=rate, start_time=Time("2021-03-04T05:06:07.25", precision=9))
    zd = np.asarray(z.data)
    for k in range(0, L + 1):
        for n in sorted({L - k, 1 if k < L else 0, (L - k) // 2}):
            if n < 0 or k + n > L:
                continue
            forms = (("duration k*dt", k * z.dt), ("duration k/rate", k / rate), ("Time start + k*dt", z.start_time + k * z.dt))
            for nm, targ in forms:
                res.transitions += 1
                res.traces += 1
                res.state(("tails", case["rate"], k, n, nm))
                sub = {"rate": case["rate"], "k": k, "n": n, "form": nm}
                try:
                    out = pb.snippet(z, targ, n)
                except Exception as e:
                    res.violation("snippet|whole sample as duration / Time|raised", f"snippet(z, {nm} with k={k}, {n}) on {L} samples at "
                                  f"{case['rate']}: {type(e).__name__}: {e} (the count form returns z[{k}:{k + n}])", case, sub)
                    continue
                vt = 1e-5 + 8 * 4e-11 * rate.to_value(u.Hz)           # (a Time resolves ~4e-11 s: that many samples of a unit ramp)
                if len(out) != n or (n and float(np.max(np.abs(np.asarray(out.data) - zd[k:k + n]))) > vt):
                    res.violation("snippet|whole sample as duration / Time|values", f"{nm}, k={k}, n={n} at {case['rate']}: not z[{k}:{k + n}] "
                                  f"(len {len(out)})", case, sub)
                    continue
                if n and abs((out.start_time - z.start_time).to_value(u.s) - k / rate.to_value(u.Hz)) > 1e-9 + 1e-6 / rate.to_value(u.Hz):
                    res.violation("snippet|whole sample as duration / Time|start_time", f"{nm}, k={k}", case, sub)
                    continue
                res.hits["whole sample written as a duration or a Time"] += 1
    res.sample({"tails": case["rate"]}, 1)
    return res


def huge_case(case, res):
    """Whole-sample requests 1e8 samples into a lazily held signal (2^27 samples, Dask, time-chunked), written as a duration
    and as a Time: the conversion back to samples carries a rounding error of ~1e-16 * t, which grows with the offset."""
    import dask.array as da
    rate = u.Quantity(case["rate"])
    L = 2 ** 27
    z = pb.Signal(da.arange(L, chunks=2 ** 20, dtype=np.float64), sample_rate=rate, start_time=Time("2021-03-04T05:06:07.25", precision=9))
    base = case["base"]
    for k in range(base, base + 40):
        for n in sorted({L - k, 64, 1}):
            if k + n > L:
                continue
            for nm, targ in (("count", k), ("duration k*dt", k * z.dt), ("duration k/rate", k / rate)):
                res.transitions += 1
                res.traces += 1
                res.state(("huge", case["rate"], k, n, nm))
                sub = {"rate": case["rate"], "k": k, "n": n, "form": nm}
                try:
                    out = pb.snippet(z, targ, n)
                    head = np.asarray(out.data[: min(n, 3)].compute())
                except Exception as e:
                    res.violation("snippet|huge offset|raised", f"snippet(z, {nm} with k={k}, {n}) on 2^27 samples at {case['rate']}: "
                                  f"{type(e).__name__}: {str(e)[:90]} (the count form returns z[{k}:{k + n}])", case, sub)
                    continue
                if len(out) != n or not np.array_equal(head, np.arange(k, k + min(n, 3), dtype=float)):
                    res.violation("snippet|huge offset|values", f"{nm}, k={k}, n={n} at {case['rate']}: not z[{k}:{k + n}] (len {len(out)}, "
                                  f"first samples {head!r})", case, sub)
                    continue
                if abs((out.start_time - z.start_time).to_value(u.s) - k / rate.to_value(u.Hz)) > 1e-9 + 1e-6 / rate.to_value(u.Hz):
                    res.violation("snippet|huge offset|start_time", f"{nm}, k={k}", case, sub)
                    continue
                res.hits["whole-sample request 1e8 samples into the signal"] += 1
    res.sample({"huge": case["rate"]}, 1)
    return res


def narrow_case(case, res):
    """t and n given as NumPy integer scalars of every width that holds them, on a 300-sample signal: t + n exceeds the
    range of the narrow types, the answer must not (exact slice, or ValueError when out of range)."""
    import warnings
    N = 300
    z = factory.make_encoded(case["cls"], N, nchan=2, rate_name="1kHz", start_name=case["start"])
    zd = np.asarray(z.data)
    T0 = T(z.start_time) if z.start_time is not None else None
    srx = hz(z.sample_rate)
    types = (np.int8, np.uint8, np.int16, np.uint16, np.int32, np.int64, np.uint64)
    for t in (0, 1, 100, 127, 128, 200, 255, 256, 299, 300):
        for n in (0, 1, 27, 28, 44, 45, 100, 101, 155, 156, 172, 173, 200, 300):
            for Tt in types:
                for which in ("t", "n", "both"):
                    if (which in ("t", "both") and t > np.iinfo(Tt).max) or (which in ("n", "both") and n > np.iinfo(Tt).max):
                        continue
                    targ = Tt(t) if which in ("t", "both") else t
                    narg = Tt(n) if which in ("n", "both") else n
                    sub = {"t": t, "n": n, "type": Tt.__name__, "narrow": which}
                    res.state(("narrow", case["cls"], case["start"], t, n, Tt.__name__, which))
                    res.transitions += 1
                    res.traces += 1
                    try:
                        with warnings.catch_warnings():
                            warnings.simplefilter("ignore")
                            out = pb.snippet(z, targ, narg)
                        exc = None
                    except Exception as e:
                        out, exc = None, e
                    if t + n > N:
                        if exc is None:
                            res.violation("snippet|narrow integer|out of range accepted", f"snippet(z, np.{Tt.__name__}({t}), {n}) on "
                                          f"{N} samples returned {len(out)} samples instead of raising ValueError [{sub}]", case, sub)
                        elif not isinstance(exc, ValueError):
                            res.violation("snippet|narrow integer|wrong exception", f"{type(exc).__name__}: {exc} [{sub}]", case, sub)
                        else:
                            res.hits["narrow integer, out of range refused"] += 1
                        continue
                    if exc is not None:
                        res.violation("snippet|narrow integer|raised", f"in-range request raised {type(exc).__name__}: {exc} [{sub}]",
                                      case, sub)
                        continue
                    if len(out) != n or not np.array_equal(np.asarray(out.data), zd[t:t + n]):
                        res.violation("snippet|narrow integer|values", f"snippet(z, {t}, {n}) with {which} as np.{Tt.__name__}: "
                                      f"{len(out)} samples, not z[{t}:{t + n}] [{sub}]", case, sub)
                        continue
                    if T0 is not None and n > 0 and abs(T(out.start_time) - T0 - F(t) / srx / 86400) > 2 * ULP_T:
                        res.violation("snippet|narrow integer|start_time", f"[{sub}]", case, sub)
                    if t + n > np.iinfo(Tt).max:
                        res.hits["narrow integer whose t + n does not fit its width"] += 1
    return res


def long_case(case, res):
    """Large offsets: fractional t far from the start must still be interpolated (float64 FFT reference)."""
    N = case["N"]
    dtype = np.dtype(case["dtype"])
    rng = np.random.default_rng(12 + case["seed"])
    x = rng.uniform(-1, 1, N)
    if dtype.kind == "c":
        x = x + 1j * rng.uniform(-1, 1, N)
    x = x.astype(dtype)
    z = factory.make("Signal", x, rate_name="1MHz", start_name="iso")
    T0, srx = T(z.start_time), hz(z.sample_rate)
    Xf = np.fft.fft(x.astype(complex))
    f = np.fft.fftfreq(N)
    n = 6
    for t in [1000.01, 25000.25, 30000.2, N // 2 + 0.5, N - n - 0.75, N - n - 1.0 + 1e-3, 12345.0, float(N - n), 0.125,
              20000 + 1e-4, 33333.3333]:
        for form in ("float", "quantity", "time"):
            sub = {"t": t, "n": n, "form": form, "N": N}
            res.state(("long", N, str(dtype), t, form))
            if form == "float":
                targ, teff = t, F(t)
            elif form == "quantity":
                targ = (t / z.sample_rate).to(u.us)
                teff = fr(targ.value) * unit_scale(u.us, u.s) * srx
            else:
                targ = z.start_time + t / z.sample_rate
                teff = (T(targ) - T0) * 86400 * srx
            try:
                out = pb.snippet(z, targ, n)
            except Exception as e:
                res.transitions += 1
                if form != "float" and isinstance(e, ValueError) and abs(teff + n - N) <= F(1, 10 ** 6) + 8 * ULP_T * 86400 * srx:
                    # Quantity/Time request exactly on the boundary: the float conversion may land a rounding outside
                    res.skipped["Quantity/Time request exactly on the boundary (float conversion may land either side)"] += 1
                    continue
                res.violation(f"snippet|long|{form}|raised", f"{type(e).__name__}: {e} [{sub}]", case, sub)
                continue
            res.transitions += 1
            res.traces += 1
            if len(out) != n:
                res.violation(f"snippet|long|{form}|length", f"{len(out)} samples [{sub}]", case, sub)
                continue
            i = math.floor(teff)
            frac = float(teff - i)
            ref = np.fft.ifft(Xf * np.exp(2j * np.pi * f * frac))[i:i + n]
            if dtype.kind != "c":
                ref = ref.real
            e = float(np.max(np.abs(np.asarray(out.data) - ref)))
            delta = 0.0 if form == "float" else (float(4 * ULP_T * 86400 * srx) if form == "time" else 1e-9)
            if not res.ratio("long interp err / budget", e, 64 * EPS32 + math.pi * delta):
                res.violation(f"snippet|long|{form}|values", f"t={t}: max |out - interpolation at t| = {e:.3g} [{sub}]",
                              case, sub)
            err = abs(T(out.start_time) - T0 - teff / srx / 86400)
            if not res.ratio("long start_time err / budget", err, 6 * ULP_T + F(1, 10 ** 6) / srx / 86400 +
                             F(delta) / srx / 86400):
                res.violation(f"snippet|long|{form}|start_time", f"t={t}: start_time = start + "
                              f"{float((T(out.start_time) - T0) * 86400 * srx):.9g} samples [{sub}]", case, sub)
            res.hits["long signal, large offset"] += 1
    res.sample({"long": N, "t": 25000.25, "n": n}, 1)
    return res


def main(argv=None):
    return report.run_check(
        PID, gen_cases=gen_cases, check_case=check_case, describe=describe,
        required_hits=["Time on start-less signal rejected", "out of range rejected", "n = 0",
                       "whole-sample count (bit-exact slice)", "fractional (DFT interpolation)", "long signal, large offset", "request a few nano-samples off a whole sample", "sample_rate assigned before a fractional request", "argument forms",
                       "narrow integer whose t + n does not fit its width", "narrow integer, out of range refused",
                       "Time given on another scale", "buffer overwritten between requests", "whole sample written as a duration or a Time", "whole-sample request 1e8 samples into the signal"],
        assumptions=["the instant a request denotes is computed exactly from the form given (count / Quantity / Time); "
                     "resolution allowance 0 / 1e-15 rel / 4 ulp_T*sr samples",
                     "the start_time of an n = 0 result is constrained like any other (start + t/sample_rate)",
                     "Quantity/Time requests exactly on the boundary are unconstrained (either raise or return)"],
        argv=argv)


if __name__ == "__main__":
    sys.exit(main())
