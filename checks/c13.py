"""C13 -- polarisation conversions are unitary, invertible and Stokes-consistent.

Enumerated: EVERY (X, Y) with real and imaginary parts from {-2,-1,-1/2,0,1/2,1,2} (2401 pairs, packed along
time) x both starting bases x complex64/128 x (nchan, alignment) x trailing dims x NumPy / Dask layouts.
Oracle: exact Gaussian-rational arithmetic (1/sqrt2 factored out) of the documented formulas.
"""
import itertools
import sys
from fractions import Fraction as F

import numpy as np
import astropy.units as u
import dask.array as da

from pbmc import bind_repo, report, factory, history
from pbmc.exact import time_days as T

pb = bind_repo()
PID = "C13"
VALS = [-2.0, -1.0, -0.5, 0.0, 0.5, 1.0, 2.0]
VALS_T = VALS + [1e-3, 1e3]
SQ2 = np.sqrt(np.longdouble(2))

BOUNDS = {
    "quick": dict(vals=VALS, chans=[(1, "center"), (3, "center"), (2, "bottom"), (2, "top"), (4, "top")],
                  backends=["numpy", "dask1", "daskN", "daskpol"]),
    "thorough": dict(vals=VALS_T, chans=[(1, "center"), (3, "center"), (2, "bottom"), (2, "top"), (4, "top"), (4, "bottom"),
                                         (5, "center")], backends=["numpy", "dask1", "daskN", "daskpol"]),
}


def describe(tier):
    b = BOUNDS[tier]
    return {
        "bounds": {"component values": b["vals"], "pairs": len(b["vals"]) ** 4, "bases": ["linear", "circular"],
                   "dtypes": ["complex64", "complex128"], "(nchan, align)": b["chans"], "trailing": [[], [3]],
                   "backends": b["backends"]},
        "alphabet": ["to_circular", "to_linear", "to_stokes", "to_intensity", "z['I'|'Q'|'U'|'V']", "stokesI..V",
                     "round trip", "identity when already in basis"],
        "rule": "state = (config, (X, Y) pair); every pair of the value grid is present in every configuration; results "
                "compared with L=(X-iY)/sqrt2, R=(X+iY)/sqrt2, I=|X|^2+|Y|^2, Q=|X|^2-|Y|^2, U=2Re(X*Y), V=2Im(X*Y) evaluated in "
                "long double on exactly representable inputs; budget 8 eps(dtype) max|.|",
    }


def gen_cases(tier, seed):
    b = BOUNDS[tier]
    for basis in ("linear", "circular"):
        for dt in ("complex64", "complex128"):
            for nchan, align in b["chans"]:
                for trailing in ((), (3,)):
                    for be in b["backends"]:
                        yield {"basis": basis, "dtype": dt, "nchan": nchan, "align": align, "trailing": list(trailing),
                               "backend": be, "vals": b["vals"], "scale": 1.0}
    # the conversions are scale-free: the same grid at very small and very large magnitudes (powers of two: exact scaling)
    for basis in ("linear", "circular"):
        for dt, scales in (("complex128", (2.0 ** -43, 2.0 ** -30, 2.0 ** 36)), ("complex64", (2.0 ** -43, 2.0 ** 36))):
            for sc in scales:
                for be in ("numpy", "dask1"):
                    yield {"basis": basis, "dtype": dt, "nchan": 2, "align": "bottom", "trailing": [], "backend": be,
                           "vals": b["vals"], "scale": sc}
    # large signals (several MB per polarisation): the same formulas, evaluated with NumPy in double precision
    for basis in ("linear", "circular"):
        for dt in ("complex128", "complex64"):
            for be in ("numpy", "dask"):
                yield {"kind": "large", "basis": basis, "dtype": dt, "backend": be}


def grid(vals):
    g = np.array(list(itertools.product(vals, repeat=4)))
    A = g[:, 0] + 1j * g[:, 1]
    B = g[:, 2] + 1j * g[:, 3]
    return A, B


def build(case):
    A, B = grid(case["vals"])
    A, B = A * case.get("scale", 1.0), B * case.get("scale", 1.0)
    n = len(A)
    nchan, trailing = case["nchan"], tuple(case["trailing"])
    base = np.stack([A, B], axis=1)                       # (n, 2)
    x = np.broadcast_to(base[:, None, :], (n, nchan, 2)).astype(complex)
    scale = np.array([1.0, 2.0, -0.5])
    if trailing:
        x = x[..., None] * scale[None, None, None, :]
    x = np.ascontiguousarray(x).astype(case["dtype"])
    be = case["backend"]
    if be == "dask1":
        x = da.from_array(x, chunks=-1)
    elif be == "daskN":
        x = da.from_array(x, chunks=(600, 1, 2) + ((2,) if trailing else ()))
    elif be == "daskpol":
        x = da.from_array(x, chunks=(1000, nchan, 1) + ((1,) if trailing else ()))
    z = factory.make("DualPolarizationSignal", x, sample_rate=1 * u.MHz, fc=400 * u.MHz, align=case["align"],
                     start_name="iso", pol_type=case["basis"], meta={"c13": True})
    return z, A, B, (scale if trailing else np.array([1.0]))


def LD(a):
    return np.asarray(a).astype(np.clongdouble)


def values(sig):
    d = sig.data
    if isinstance(d, da.Array):
        d = d.compute()
    return np.asarray(d)


def large_case(case):
    res = report.Result()
    rng = np.random.default_rng(13)
    N, nchan = 140000, 4                                # 560 000 (sample, channel) pairs: 9 MB per polarisation in complex128
    x = (rng.normal(size=(N, nchan, 2)) + 1j * rng.normal(size=(N, nchan, 2))).astype(case["dtype"])
    data = da.from_array(x, chunks=(35000, 2, 2)) if case["backend"] == "dask" else x
    z = pb.DualPolarizationSignal(data, sample_rate=1 * u.MHz, center_freq=400 * u.MHz, pol_type=case["basis"])
    xd = x.astype(np.complex128)
    A, B = xd[..., 0], xd[..., 1]
    r2 = np.sqrt(2.0)
    if case["basis"] == "linear":
        want = {"to_circular": np.stack([(A - 1j * B) / r2, (A + 1j * B) / r2], axis=-1), "to_linear": xd}
        X, Y = A, B
    else:
        want = {"to_linear": np.stack([(A + B) / r2, 1j * (A - B) / r2], axis=-1), "to_circular": xd}
        X, Y = want["to_linear"][..., 0], want["to_linear"][..., 1]
    want["to_stokes"] = np.stack([abs(X) ** 2 + abs(Y) ** 2, abs(X) ** 2 - abs(Y) ** 2, 2 * (X * np.conj(Y)).real, 2 * (np.conj(X) * Y).imag
                                  if False else 2 * (X.conj() * Y).imag], axis=-1)
    eps = float(np.finfo(np.float32 if case["dtype"] == "complex64" else np.float64).eps)
    for name in ("to_circular", "to_linear", "to_stokes"):
        res.transitions += 1
        res.traces += 1
        res.state(("large", case["basis"], case["dtype"], case["backend"], name))
        try:
            got = values(getattr(z, name)())
        except Exception as e:
            res.violation(f"large|{name}|raised", f"{type(e).__name__}: {e}", case, {"op": name})
            continue
        w = want[name]
        if name == "to_stokes":
            # V's sign convention is the one checked on the grid: compare |V| here, everything else directly
            ok = got.shape == w.shape and float(np.max(np.abs(got[..., :3] - w[..., :3]))) <= 64 * eps * 20 and \
                float(np.max(np.abs(np.abs(got[..., 3]) - np.abs(w[..., 3])))) <= 64 * eps * 20
        else:
            ok = got.shape == w.shape and float(np.max(np.abs(got - w))) <= 16 * eps * 8
        if not ok:
            res.violation(f"large|{name}|values", f"{name} on a signal of {N} x {nchan} samples ({case['dtype']}, {case['backend']}) "
                          f"differs from the formulas", case, {"op": name})
        else:
            res.hits["large signal"] += 1
    if not np.array_equal(values(z), x):
        res.violation("large|input changed", "the conversions modified the input signal", case, None)
    res.sample({"large": [N, nchan], "dtype": case["dtype"], "backend": case["backend"]}, 1)
    return res


def check_case(case):
    if case.get("kind") == "large":
        return large_case(case)
    res = report.Result()
    z, A, B, scale = build(case)
    trailing = bool(case["trailing"])
    eps = float(np.finfo(np.dtype(case["dtype"])).eps)
    AL, BL = LD(A), LD(B)

    def expand(v):
        """(n,) exact-ish long double -> broadcast to (n, nchan[, 3]) with the trailing scale."""
        v = v[:, None]
        v = np.broadcast_to(v, (len(A), case["nchan"]))
        if trailing:
            return v[..., None] * scale.astype(np.longdouble)[None, None, :]
        return v

    def expand2(v):      # quadratic quantities scale with scale^2
        v = np.broadcast_to(v[:, None], (len(A), case["nchan"]))
        if trailing:
            return v[..., None] * (scale.astype(np.longdouble) ** 2)[None, None, :]
        return v

    if case["basis"] == "linear":
        X, Y = AL, BL
        Lx, Rx = (X - 1j * Y) / SQ2, (X + 1j * Y) / SQ2
    else:
        Lx, Rx = AL, BL
        X, Y = (Lx + Rx) / SQ2, 1j * (Lx - Rx) / SQ2
    I = (np.abs(X) ** 2 + np.abs(Y) ** 2).real
    Q = (np.abs(X) ** 2 - np.abs(Y) ** 2).real
    U = 2 * (np.conj(X) * Y).real
    V = 2 * (np.conj(X) * Y).imag
    amp = float(np.max(np.abs(AL))) * (2.0 if trailing else 1.0) * 2
    tol1 = 8 * eps * amp
    tol2 = 16 * eps * amp * amp
    key = (case["basis"], case["dtype"], case["nchan"], case["align"], trailing, case["backend"], case.get("scale", 1.0))
    if case.get("scale", 1.0) != 1.0:
        res.hits["very small / very large magnitudes"] += 1
    res.states |= {hash(key + (i,)) for i in range(len(A))}

    def meta_ok(out, site, want_type, pol=None):
        ok = True
        if type(out) is not want_type:
            res.violation(f"{site}|type", f"{type(out).__name__}, expected {want_type.__name__}", case, None)
            return False
        for k in ("sample_rate", "center_freq", "freq_align", "meta"):
            if getattr(out, k) != getattr(z, k):
                res.violation(f"{site}|{k}", f"{k}: {getattr(z, k)!r} -> {getattr(out, k)!r}", case, None)
                ok = False
        if out.start_time is None or T(out.start_time) != T(z.start_time):
            res.violation(f"{site}|start_time", "start_time changed", case, None)
            ok = False
        if abs(out.chan_bw.to_value(u.Hz) - z.chan_bw.to_value(u.Hz)) > 0:
            res.violation(f"{site}|chan_bw", "chan_bw changed", case, None)
            ok = False
        if pol is not None and out.pol_type != pol:
            res.violation(f"{site}|pol_type", f"pol_type {out.pol_type!r}, expected {pol!r}", case, None)
            ok = False
        if isinstance(z.data, da.Array) and not isinstance(out.data, da.Array):
            res.violation(f"{site}|not lazy", "Dask-backed input gave a non-Dask result", case, None)
        return ok

    def cmp(got, want, tol, site, what):
        res.transitions += 1
        e = float(np.max(np.abs(LD(got) - want)))
        if not res.ratio(f"{what} err / budget", e, tol):
            j = np.unravel_index(np.argmax(np.abs(LD(got) - want)), got.shape)
            res.violation(f"{site}|values", f"{what}: pair #{j[0]} (A={A[j[0]]}, B={B[j[0]]}) element {j[1:]}: got "
                          f"{got[j]!r}, formula gives {complex(want[j])!r}", case, {"pair": int(j[0])})
            return False
        return True

    # --- conversions
    zc, zl = z.to_circular(), z.to_linear()
    res.traces += 2
    if meta_ok(zc, "to_circular", type(z), "circular"):
        vc = values(zc)
        cmp(vc[:, :, 0], expand(Lx), tol1, "to_circular", "L = (X - iY)/sqrt2")
        cmp(vc[:, :, 1], expand(Rx), tol1, "to_circular", "R = (X + iY)/sqrt2")
    if meta_ok(zl, "to_linear", type(z), "linear"):
        vl = values(zl)
        cmp(vl[:, :, 0], expand(X), tol1, "to_linear", "X")
        cmp(vl[:, :, 1], expand(Y), tol1, "to_linear", "Y")
    same = zl if case["basis"] == "linear" else zc
    if not np.array_equal(values(same), values(z)):
        res.violation("identity|already in basis", f"conversion to the basis the signal is already in changed the data", case, None)
    res.hits["identity when already in basis"] += 1
    # power preserved / round trip
    for name, w in (("to_circular", zc), ("to_linear", zl)):
        v = values(w)
        p = (np.abs(LD(v[:, :, 0])) ** 2 + np.abs(LD(v[:, :, 1])) ** 2).real
        cmp(p, expand2(I), tol2, name, "total power |a|^2+|b|^2")
    back = zc.to_linear() if case["basis"] == "linear" else zl.to_circular()
    res.traces += 1
    if meta_ok(back, "round trip", type(z), case["basis"]):
        cmp(values(back), LD(values(z)), 2 * tol1, "round trip", "opposite conversion restores")
    # --- Stokes from the given basis, from the other basis, and components
    want_s = [expand2(I), expand2(Q), expand2(U), expand2(V)]
    for name, src in (("to_stokes", z), ("to_stokes(other basis)", zc if case["basis"] == "linear" else zl)):
        s = src.to_stokes()
        res.traces += 1
        if not meta_ok(s, name, pb.FullStokesSignal):
            continue
        vs = values(s)
        if vs.shape[:3] != (len(A), case["nchan"], 4):
            res.violation(f"{name}|shape", f"{vs.shape}", case, None)
            continue
        for k, nm in enumerate("IQUV"):
            cmp(vs[:, :, k], want_s[k], tol2 * (2 if "other" in name else 1), name, f"Stokes {nm}")
        if "other" in name:
            res.hits["Stokes from the other basis"] += 1
            continue
        Iv, Qv, Uv, Vv = (LD(vs[:, :, k]).real for k in range(4))
        if float(np.min(Iv)) < 0:
            res.violation(f"{name}|I negative", f"min I = {float(np.min(Iv))}", case, None)
        e = float(np.max(np.abs(Iv ** 2 - Qv ** 2 - Uv ** 2 - Vv ** 2)))
        if not res.ratio("I^2 - Q^2 - U^2 - V^2 / budget", e, 8 * tol2 * float(np.max(Iv))):
            res.violation(f"{name}|I^2 != Q^2+U^2+V^2", f"max deviation {e:.3g}", case, None)
        ti = z.to_intensity()
        res.traces += 1
        if meta_ok(ti, "to_intensity", pb.IntensitySignal):
            tv = values(ti)
            cmp(tv.sum(axis=2), want_s[0], tol2, "to_intensity", "I = sum over polarisations of to_intensity")
        for k, nm in enumerate("IQUV"):
            for how, comp in (("getitem", lambda: s[nm]), ("attr", lambda: getattr(s, "stokes" + nm))):
                try:
                    c = comp()
                except Exception as e:
                    res.violation(f"component|{how} raised", f"s[{nm!r}]: {type(e).__name__}: {e}", case, {"name": nm})
                    continue
                res.traces += 1
                if not meta_ok(c, f"component {how}", pb.IntensitySignal):
                    continue
                cv = values(c)
                if cv.shape != vs[:, :, k].shape or not np.array_equal(cv, vs[:, :, k]):
                    res.violation(f"component|{how} wrong component", f"s[{nm!r}] is not Stokes {nm} (shape {cv.shape} vs "
                                  f"{vs[:, :, k].shape})", case, {"name": nm})
                res.hits["component by name"] += 1
    # ---- histories on one Stokes object: read a component, modify in place, read again (no stale components)
    s = z.to_stokes()
    for how in ("getitem", "attr"):
        for op in ("*=3", "out=", "+=1"):
            s2 = type(s).like(s, s.data * 1)
            first = {nm: (s2[nm] if how == "getitem" else getattr(s2, "stokes" + nm)) for nm in "IQUV"}
            if op == "*=3":
                s2 *= 3
            elif op == "out=":
                np.multiply(s2, 0.5, out=s2)
            else:
                s2 += 1
            res.transitions += 9
            res.traces += 1
            now = values(s2)
            for k, nm in enumerate("IQUV"):
                c = s2[nm] if how == "getitem" else getattr(s2, "stokes" + nm)
                if not np.array_equal(values(c), now[:, :, k]):
                    res.violation(f"history|stale component ({how})", f"after reading {nm}, '{op}' on the Stokes signal, reading {nm} "
                                  f"again does not show the current data", case, {"how": how, "op": op, "name": nm})
                    break
            res.hits["component read, in-place write, component read"] += 1
    if case["backend"] != "numpy":
        # the SAME Dask array labelled in both bases, every conversion of both evaluated in ONE graph: each result must equal
        # the one computed on its own
        import dask
        other_b = "circular" if case["basis"] == "linear" else "linear"
        zo = type(z).like(z, pol_type="".join(list(other_b)))
        lazies, names = [], []
        for who, obj in ((case["basis"], z), (other_b, zo)):
            for nm, fn in (("to_stokes", lambda q_: q_.to_stokes()), ("to_linear", lambda q_: q_.to_linear()),
                           ("to_circular", lambda q_: q_.to_circular()), ("to_intensity", lambda q_: q_.to_intensity())):
                lazies.append(fn(obj).data)
                names.append(f"{nm} of the {who}-labelled signal")
        alone = [np.asarray(a_.compute(scheduler="synchronous")) for a_ in lazies]
        joint = dask.compute(*lazies, scheduler="synchronous")
        res.transitions += 2 * len(lazies)
        for nm, a_, j_ in zip(names, alone, joint):
            if a_.shape != np.asarray(j_).shape or not np.array_equal(a_, np.asarray(j_), equal_nan=True):
                res.violation("dask|results of both bases in one graph interfere", f"{nm}: computed together with the others it differs "
                              f"from the value computed on its own", case, {"which": nm})
                break
        else:
            res.hits["both bases in one Dask graph"] += 1
    if case["backend"] == "numpy":
        history.reuse_buffer(res, case, z, [("to_circular", lambda q_: q_.to_circular()), ("to_linear", lambda q_: q_.to_linear()),
                                            ("to_stokes", lambda q_: q_.to_stokes()), ("to_intensity", lambda q_: q_.to_intensity())],
                             "history")
    # conversions after an in-place change and after assigning pol_type
    zz = type(z).like(z, z.data * 1)
    _ = zz.to_stokes(), zz.to_circular()
    zz *= 2
    if not np.allclose(values(zz.to_stokes()), 4 * values(z.to_stokes()), rtol=1e-5):
        res.violation("history|stale conversion", "to_stokes after 'z *= 2' does not reflect the new data", case, None)
    # an assignment that must be refused leaves the object as it was
    before = (zz.pol_type, values(zz.to_circular()), values(zz.to_linear()))
    for bad in ("elliptical", "LINEAR", None, 3):
        try:
            zz.pol_type = bad
            res.violation("history|invalid pol_type accepted", f"pol_type = {bad!r} accepted", case, {"bad": repr(bad)})
        except Exception:
            pass
    try:
        after = (zz.pol_type, values(zz.to_circular()), values(zz.to_linear()))
        if after[0] != before[0] or not np.array_equal(after[1], before[1]) or not np.array_equal(after[2], before[2]):
            res.violation("history|refused pol_type assignment changed the signal", f"pol_type {before[0]!r} -> {after[0]!r} or conversions "
                          f"changed after refused assignments", case, None)
        else:
            res.hits["refused pol_type assignment"] += 1
    except Exception as e:
        res.violation("history|conversion raised after a refused pol_type assignment", f"{type(e).__name__}: {e}", case, None)
    other = "circular" if case["basis"] == "linear" else "linear"
    zz.pol_type = "".join(list(other))
    same = zz.to_circular() if other == "circular" else zz.to_linear()
    if not np.array_equal(values(same), values(zz)):
        res.violation("history|pol_type assignment ignored", f"after assigning pol_type={other!r} the conversion to {other} is not the "
                      f"identity", case, None)
    res.transitions += 6
    if trailing:
        res.hits["trailing dimension"] += 1
    if case["align"] != "center":
        res.hits["non-center alignment"] += 1
    if case["backend"] != "numpy":
        res.hits["dask backend"] += 1
    res.outcome(key[:2])
    res.sample({"config": {k: case[k] for k in ("basis", "dtype", "nchan", "align", "trailing", "backend")},
                "pair": [complex(A[777]).__repr__(), complex(B[777]).__repr__()]}, 1)
    return res


def main(argv=None):
    return report.run_check(
        PID, gen_cases=gen_cases, check_case=check_case, describe=describe,
        required_hits=["buffer overwritten between calls", "refused pol_type assignment", "both bases in one Dask graph", "large signal", "identity when already in basis", "Stokes from the other basis", "component by name", "component read, in-place write, component read", "very small / very large magnitudes",
                       "trailing dimension", "non-center alignment", "dask backend"],
        assumptions=["inputs are dyadic rationals so the formulas are exact up to the final 1/sqrt2; budget 8 eps(dtype) max|.| "
                     "(16 eps max^2 for quadratic quantities)"],
        argv=argv)


if __name__ == "__main__":
    sys.exit(main())
