#!/bin/bash
# usage: run_mutant.sh <patch.diff> [--tests] cNN [cNN...]
# Applies a patch to /repo, runs the named quick checks (and optionally the pinned test-suite), reverts.
# Refuses to run if /repo has uncommitted changes.
set -u
patch="$(realpath "$1")"; shift
tests=0
if [ "${1:-}" = "--tests" ]; then tests=1; shift; fi
if [ -n "$(git -C /repo status --porcelain --untracked-files=no)" ]; then echo "/repo dirty"; exit 3; fi
git -C /repo apply "$patch" || { echo "patch does not apply"; exit 3; }
trap 'git -C /repo checkout -- . ' EXIT
rc_all=0
for c in "$@"; do
  out=$(cd /verif && ./run_check.sh "$c" "${MUT_TIER:-quick}" --no-evidence 2>&1); rc=$?
  nv=$(echo "$out" | grep -c '^VIOLATION')
  echo "== $(basename "$patch") $c: exit=$rc violations=$nv"
  echo "$out" | grep -A2 '^VIOLATION' | head -${MUT_LINES:-9}
  echo "$out" | grep -E '^(BROKEN|HARNESS)' | head -3
done
if [ $tests = 1 ]; then
  /verif/tools/run_tests.sh /repo
fi
