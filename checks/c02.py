"""C02 -- channel frequency labels follow the band model and survive frequency slicing.

Enumerated: radio classes x nchan x alignment x bands (mixed units, many decades); every non-empty
channel range a:b (None / negative / out-of-range bounds), every nested second range, combined
time+frequency slices, repeated slicing to depth 3, Stokes and trailing-axis component selection.
Oracle: band formula in exact rational arithmetic.
"""
import itertools
import sys
from fractions import Fraction as F

import numpy as np
import astropy.units as u

from pbmc import bind_repo, report, factory
from pbmc.exact import hz, time_days as T, ULP_T

pb = bind_repo()
PID = "C02"
A = {"bottom": F(0), "center": F(1, 2), "top": F(1)}

# (center_freq value, unit, chan_bw value, unit)
BANDS = [
    (0.0, "Hz", 1.0, "Hz"),
    (400.0, "MHz", 1.0, "MHz"),
    (1.4, "GHz", 390.625, "kHz"),
    (-3.0, "kHz", 1 / 3, "kHz"),
    (7.0, "GHz", 0.9765625, "MHz"),
    (1e-3, "Hz", 1e-6, "Hz"),
    (327.0, "MHz", 3.125, "MHz"),
    (1234.56789, "MHz", 0.1, "kHz"),
]
BOUNDS = {
    "quick": dict(nchan=range(1, 7), bands=BANDS[:6], classes=factory.RADIO, depth3=True),
    "thorough": dict(nchan=range(1, 10), bands=BANDS, classes=factory.RADIO, depth3=True),
}
REL = F(1, 2 ** 52)


def describe(tier):
    b = BOUNDS[tier]
    return {
        "bounds": {"nchan": [min(b["nchan"]), max(b["nchan"])], "bands": len(b["bands"]), "classes": b["classes"],
                   "channel range bounds": "None and every integer in [-n-1, n+1]", "nesting depth": 3},
        "alphabet": ["construct", "z[:, a:b]", "z[:, a:b][:, c:d]", "third nested range", "z[t0:t1:step, a:b]",
                     "z['I'|'Q'|'U'|'V'] / stokesX", "z[:, :, k] / z[:, a:b, k:k+1] trailing axis", "like()"],
        "rule": "state = (class, nchan, alignment, band, chain of ranges); each state is reached by real slicing calls; "
                "labels compared with center_freq + chan_bw*(i + a - nchan/2) in Fractions (8 ulp of max(|fc|, n*bw) per "
                "nesting level)",
    }


def gen_cases(tier, seed):
    b = BOUNDS[tier]
    for cls in b["classes"]:
        for n in b["nchan"]:
            for align in A:
                for bi, band in enumerate(b["bands"]):
                    # quick: negative/None spellings at the nested level only for two classes (all classes share the
                    # same frequency-slicing code path); thorough: everywhere
                    full = tier == "thorough" or cls in ("RadioSignal", "DualPolarizationSignal")
                    yield {"cls": cls, "nchan": n, "align": align, "band": list(band), "full": full}
    # band centre and channel width given as single-precision Quantities (e.g. read from a header record with f4 fields)
    for cls in ("RadioSignal", "BasebandSignal", "FullStokesSignal"):
        for n in (1, 2, 5, 6):
            for align in A:
                for band in (BANDS[7], BANDS[2]):
                    yield {"cls": cls, "nchan": n, "align": align, "band": list(band), "full": False, "f32": True}


def labels_of(q):
    sc = hz(1 * q.unit)
    return [F(float(v)) * sc for v in np.atleast_1d(q.value)]


def build(case):
    cls, n = case["cls"], case["nchan"]
    fcv, fcu, bwv, bwu = case["band"]
    fc, bw = fcv * u.Unit(fcu), bwv * u.Unit(bwu)
    if case.get("f32"):
        fc, bw = np.float32(fcv) * u.Unit(fcu), np.float32(bwv) * u.Unit(bwu)
    L = 6
    ss = factory.sample_shape(cls, n, extra=(3,) if cls in ("RadioSignal", "IntensitySignal") else ())
    x = factory.payload(L, ss, factory.default_dtype(cls))
    if cls in ("BasebandSignal", "DualPolarizationSignal"):
        z = factory.make(cls, x, sample_rate=bw, fc=fc, align=case["align"], start_name="iso")
    else:
        z = factory.make(cls, x, sample_rate=2 * u.Hz, chan_bw=bw, fc=fc, align=case["align"], start_name="iso")
    zn = type(z).like(z, start_time=None)
    return z, zn, fc, bw


def check_labels(res, z, want, depth, bwx, scale, case, sub, site, expect_type=None):
    """z's labels == want (list of Fractions); chan_bw == bwx; band contains labels; width n*bw."""
    tol = scale * 8 * REL * depth
    got = labels_of(z.channel_freqs)
    if len(got) != len(want) or z.nchan != len(want):
        res.violation(f"{site}|nchan", f"{len(got)} labels / nchan {z.nchan}, expected {len(want)} [{sub}]", case, sub)
        return False
    ok = True
    e = max(abs(g - w) for g, w in zip(got, want))
    if not res.ratio("label err / (8 ulp * depth)", e, tol):
        i = max(range(len(got)), key=lambda j: abs(got[j] - want[j]))
        res.violation(f"{site}|labels", f"label[{i}] = {float(got[i])!r} Hz, band model gives {float(want[i])!r} Hz "
                      f"(err {float(e / bwx):.3g} chan_bw) [{sub}]", case, sub)
        ok = False
    if abs(hz(z.chan_bw) - bwx) > bwx * 4 * REL:
        res.violation(f"{site}|chan_bw", f"chan_bw {z.chan_bw!r} changed, expected {float(bwx)} Hz [{sub}]", case, sub)
        ok = False
    for j in range(1, len(got)):
        if abs(got[j] - got[j - 1] - bwx) > 2 * tol:
            res.violation(f"{site}|spacing", f"labels not evenly spaced by chan_bw at {j} [{sub}]", case, sub)
            ok = False
            break
    mn, mx = hz(z.min_freq), hz(z.max_freq)
    if abs((mx - mn) - len(want) * bwx) > 2 * tol or abs(hz(z.bandwidth) - len(want) * bwx) > 2 * tol:
        res.violation(f"{site}|band width", f"max_freq - min_freq = {float(mx - mn)} / bandwidth {z.bandwidth!r}, expected "
                      f"{float(len(want) * bwx)} Hz [{sub}]", case, sub)
        ok = False
    if not all(mn - tol <= g <= mx + tol for g in got):
        res.violation(f"{site}|labels outside band", f"labels not inside [min_freq, max_freq] = [{float(mn)}, {float(mx)}] "
                      f"[{sub}]", case, sub)
        ok = False
    if z.freq_align not in A:
        res.violation(f"{site}|align value", f"freq_align {z.freq_align!r}", case, sub)
        ok = False
    # the labels must also be what the stated formula gives on the object's OWN metadata
    a = A[z.freq_align] if z.nchan % 2 == 0 else F(1, 2)
    fcx = hz(z.center_freq)
    own = [fcx + hz(z.chan_bw) * (i + a - F(z.nchan, 2)) for i in range(z.nchan)]
    if max(abs(g - w) for g, w in zip(got, own)) > tol:
        res.violation(f"{site}|formula on own metadata", f"channel_freqs disagree with center_freq/chan_bw/freq_align of the "
                      f"same object [{sub}]", case, sub)
        ok = False
    if z.nchan % 2 and z.freq_align != "center":
        res.violation(f"{site}|odd not center", f"odd nchan {z.nchan} with freq_align {z.freq_align!r} [{sub}]", case, sub)
        ok = False
    return ok


def ranges(n):
    bounds = [None] + list(range(-n - 1, n + 2))
    for p, q in itertools.product(bounds, bounds):
        s0, s1, _ = slice(p, q).indices(n)
        if s1 > s0:
            yield p, q, s0, s1


def check_case(case):
    res = report.Result()
    cls, n, align = case["cls"], case["nchan"], case["align"]
    z, zn, fc, bw = build(case)
    full = case.get("full", True)
    fcx, bwx = hz(fc), hz(bw)
    a = A[align] if n % 2 == 0 else F(1, 2)
    want = [fcx + bwx * (i + a - F(n, 2)) for i in range(n)]
    scale = max(abs(fcx), n * bwx)
    key0 = (cls, n, align, tuple(case["band"]))
    res.transitions += 1
    res.traces += 1
    res.state(key0)
    check_labels(res, z, want, 1, bwx, scale, case, {"op": "construct"}, "construct")
    if z.freq_align != ("center" if n % 2 else align):
        res.violation("construct|freq_align", f"freq_align {z.freq_align!r} for nchan {n}, requested {align!r}", case, None)
    if n % 2:
        res.hits["odd nchan forced center"] += 1
    baseband = cls in ("BasebandSignal", "DualPolarizationSignal")
    T0 = T(z.start_time)

    def same_time(y, sub, site, ref=None):
        if ref is zn:
            if y.start_time is not None or len(y) != len(z) or abs(hz(y.sample_rate) - hz(z.sample_rate)) > 0:
                res.violation(f"{site}|time labels changed", f"start_time/sample_rate/len changed [{sub}]", case, sub)
            return
        if y.start_time is None or abs(T(y.start_time) - T0) > 0 or len(y) != len(z) or \
                abs(hz(y.sample_rate) - hz(z.sample_rate)) > 0:
            res.violation(f"{site}|time labels changed", f"start_time/sample_rate/len changed by a pure frequency or "
                          f"component selection [{sub}]", case, sub)

    # every non-empty channel range, then every nested range, then a third level on a subset
    seen1 = set()
    for p, q, s0, s1 in ranges(n):
        sub = {"range": [p, q]}
        try:
            y = zn[:, p:q]
        except Exception as e:
            res.transitions += 1
            res.violation("slice|raised", f"z[:, {p}:{q}] raised {type(e).__name__}: {e}", case, sub)
            continue
        res.transitions += 1
        res.traces += 1
        res.state(key0 + ((p, q),))
        if p is not None and p < 0 or q is not None and q < 0:
            res.hits["negative channel bound"] += 1
        if p is None or q is None:
            res.hits["open channel bound"] += 1
        if type(y) is not type(z):
            res.violation("slice|type", f"type changed to {type(y).__name__}", case, sub)
            continue
        w1 = want[s0:s1]
        ok = check_labels(res, y, w1, 2, bwx, scale, case, sub, "slice")
        same_time(y, sub, "slice", zn)
        if not np.array_equal(np.asarray(y.data), np.asarray(z.data)[:, s0:s1]):
            res.violation("slice|data", "channel data do not match the selected channels", case, sub)
        res.outcome((s0, s1))
        if not ok:
            continue
        # explicit-state de-duplication: spellings that reach the same (range, centre bits, alignment) have the same futures
        k1 = (s0, s1, float(y.center_freq.value), str(y.center_freq.unit), y.freq_align)
        if k1 in seen1:
            res.hits["level-1 state reached again by another spelling"] += 1
            continue
        seen1.add(k1)
        m = s1 - s0
        for p2, q2, t0, t1 in ranges(m):
            if not full and not (p2 is None or p2 >= 0) and (q2 is None or q2 > 0):
                continue
            sub2 = {"range": [p, q], "nested": [p2, q2]}
            y2 = y[:, p2:q2]
            res.transitions += 1
            res.traces += 1
            res.state(key0 + ((p, q), (p2, q2)))
            w2 = w1[t0:t1]
            ok2 = check_labels(res, y2, w2, 3, bwx, scale, case, sub2, "nested slice")
            res.hits["nested slice"] += 1
            if (s1 - s0) % 2 == 0 and n % 2 == 0 and (t1 - t0) % 2 == 0 and align != "center":
                res.hits["even->even->even from non-center alignment"] += 1
            if ok2 and p in (None, 1) and p2 in (None, 1, -2):
                m2 = t1 - t0
                for p3, q3, v0, v1 in ranges(m2):
                    if p3 not in (None, 1, -1) or q3 not in (None, m2 - 1, m2 + 1):
                        continue
                    y3 = y2[:, p3:q3]
                    res.transitions += 1
                    res.traces += 1
                    res.state(key0 + ((p, q), (p2, q2), (p3, q3)))
                    check_labels(res, y3, w2[v0:v1], 4, bwx, scale, case, dict(sub2, third=[p3, q3]), "third slice")
    # NumPy integer bounds behave like Python ints
    for p_, q_ in ((np.int64(0), np.int64(n)), (np.int32(-n), None), (np.int64(n - 1), np.int64(n + 3))):
        s0, s1, _ = slice(p_, q_).indices(n)
        if s1 > s0:
            y = zn[:, p_:q_]
            res.transitions += 1
            check_labels(res, y, want[s0:s1], 2, bwx, scale, case, {"range": [repr(p_), repr(q_)]}, "slice")
            res.hits["numpy integer bounds"] += 1
    # combined time + frequency slices (differential against the time-only slice)
    for (t0, t1, st) in [(None, None, None), (1, None, None), (None, -1, None), (2, 5, None), (-4, None, 1),
                         (None, None, 2), (1, None, 3)]:
        for p, q, s0, s1 in ranges(n):
            if p not in (None, 0, 1, -1, -n) or q not in (None, n, n - 1, -1, 1):
                continue
            sub = {"time": [t0, t1, st], "range": [p, q]}
            y = z[t0:t1:st, p:q]
            yt = z[t0:t1:st]
            res.transitions += 2
            res.traces += 1
            res.state(key0 + ("tf", (t0, t1, st), (p, q)))
            if baseband and st not in (None, 1):
                # chan_bw follows sample_rate for baseband signals (C16), so labels cannot also be preserved
                res.skipped["stepped time slice of a baseband signal (chan_bw follows sample_rate)"] += 1
            else:
                check_labels(res, y, want[s0:s1], 2, bwx, scale, case, sub, "time+freq slice")
            if abs(T(y.start_time) - T(yt.start_time)) > 0 or len(y) != len(yt) or \
                    abs(hz(y.sample_rate) - hz(yt.sample_rate)) > 0:
                res.violation("time+freq slice|time labels", f"time metadata differ from the time-only slice [{sub}]",
                              case, sub)
            res.hits["combined slice"] += 1
    # ---- assignment histories on ONE object: labels must always follow the object's current metadata
    if tuple(case["band"]) in (BANDS[1], BANDS[3]) and (case.get("full", True) or n in (2, 3, 4)):
        import itertools as _it
        ops = [("read", None), ("align", "bottom"), ("align", "top"), ("align", "center"), ("center", 1.0), ("bw", 2.0), ("slice", None), ("refused", None)]
        if baseband:
            # a baseband signal is re-created by every slice with chan_bw = sample_rate (C16), so an assigned chan_bw cannot
            # survive slicing: chan_bw assignment is outside this history alphabet for baseband classes
            ops = [o for o in ops if o[0] != "bw"]
        for seq in _it.product(range(len(ops)), repeat=3):
            if len(set(seq)) == 1 and seq[0] == 0:
                continue
            obj = type(zn).like(zn)
            names = []
            try:
                for i in seq:
                    kind, arg = ops[i]
                    names.append(f"{kind}{'' if arg is None else '=' + str(arg)}")
                    if kind == "read":
                        _ = obj.channel_freqs
                    elif kind == "align":
                        obj.freq_align = "".join(list(arg))
                    elif kind == "center":
                        obj.center_freq = obj.center_freq + arg * obj.chan_bw
                    elif kind == "bw":
                        obj.chan_bw = obj.chan_bw * arg
                    elif kind == "refused":
                        # assignments that must be refused leave the labels exactly as they were
                        before = labels_of(obj.channel_freqs)
                        for attr, bad in (("chan_bw", 0 * u.Hz), ("chan_bw", -1 * u.MHz), ("chan_bw", 3 * u.s),
                                          ("center_freq", 5 * u.s), ("freq_align", "middle")):
                            if baseband and attr == "chan_bw":
                                continue
                            try:
                                setattr(obj, attr, bad)
                                res.violation("assignment history|invalid value accepted", f"{attr} = {bad!r} accepted", case,
                                              {"history": names})
                            except Exception:
                                pass
                        after = labels_of(obj.channel_freqs)
                        if after != before:
                            res.violation("assignment history|labels changed by refused assignments", f"after {names}: "
                                          f"{[float(g) for g in before][:3]}.. -> {[float(g) for g in after][:3]}..", case,
                                          {"history": names})
                            break
                        res.hits["refused assignments leave labels"] += 1
                    elif kind == "slice":
                        par = labels_of(obj.channel_freqs)
                        child = obj[:, (1 if obj.nchan > 1 else 0):]
                        cw = par[(1 if obj.nchan > 1 else 0):]
                        got = labels_of(child.channel_freqs)
                        if len(got) != len(cw) or max(abs(g - w) for g, w in zip(got, cw)) > scale * 32 * REL * 4:
                            res.violation("assignment history|slice labels", f"after {names}: slice labels differ from the parent's "
                                          f"selected labels", case, {"history": names})
                    res.transitions += 1
                    # labels == formula on the object's CURRENT metadata
                    a_ = A[obj.freq_align] if obj.nchan % 2 == 0 else F(1, 2)
                    own = [hz(obj.center_freq) + hz(obj.chan_bw) * (j + a_ - F(obj.nchan, 2)) for j in range(obj.nchan)]
                    got = labels_of(obj.channel_freqs)
                    sc2 = max(abs(hz(obj.center_freq)), obj.nchan * hz(obj.chan_bw))
                    if max(abs(g - w) for g, w in zip(got, own)) > sc2 * 8 * REL:
                        res.violation("assignment history|stale labels", f"after {names}: channel_freqs = {[float(g) for g in got][:3]}.. "
                                      f"but center_freq/chan_bw/freq_align now give {[float(w) for w in own][:3]}..", case,
                                      {"history": names})
                        break
                    mn, mx = hz(obj.min_freq), hz(obj.max_freq)
                    if abs((mx - mn) - obj.nchan * hz(obj.chan_bw)) > sc2 * 16 * REL:
                        res.violation("assignment history|band width", f"after {names}: max_freq - min_freq != nchan*chan_bw", case,
                                      {"history": names})
                        break
            except Exception as e:
                res.violation("assignment history|raised", f"{names}: {type(e).__name__}: {e}", case, {"history": names})
            res.traces += 1
        res.hits["assignment histories"] += 1
    # like() with data of another channel count: the odd-count rule must be applied to the NEW count
    if n >= 2:
        for m in (n - 1, n + 1, 1):
            arr = np.zeros((4, m) + tuple(zn.shape[2:]), dtype=zn.dtype)
            try:
                y = type(zn).like(zn, arr)
            except Exception as e:
                res.violation("like(other channel count)|raised", f"{n} -> {m} channels: {type(e).__name__}: {e}", case, {"m": m})
                continue
            res.transitions += 1
            a_ = A[y.freq_align] if m % 2 == 0 else F(1, 2)      # (an odd-count parent has already been forced to 'center')
            wl = [hz(y.center_freq) + hz(y.chan_bw) * (j + a_ - F(m, 2)) for j in range(m)]
            gl = labels_of(y.channel_freqs)
            sc_ = max(abs(hz(y.center_freq)), m * hz(y.chan_bw))
            if (m % 2 and y.freq_align != "center") or len(gl) != m or max(abs(g - w) for g, w in zip(gl, wl)) > sc_ * 8 * REL:
                res.violation("like(other channel count)|labels", f"like(z, data with {m} channels) from {n} channels aligned "
                              f"{case['align']!r}: freq_align {y.freq_align!r}, labels {[float(g) for g in gl][:3]}.. expected "
                              f"{[float(w) for w in wl][:3]}..", case, {"m": m})
            else:
                res.hits["like() with another channel count"] += 1
    # component selection
    if cls == "FullStokesSignal":
        for k, name in enumerate("IQUV"):
            for y, how in ((z[name], "getitem"), (getattr(z, "stokes" + name), "attr")):
                res.transitions += 1
                res.traces += 1
                sub = {"stokes": name, "how": how}
                res.state(key0 + ("stokes", name, how))
                if type(y) is not pb.IntensitySignal:
                    res.violation("stokes|type", f"z[{name!r}] is {type(y).__name__}", case, sub)
                    continue
                check_labels(res, y, want, 2, bwx, scale, case, sub, "stokes")
                same_time(y, sub, "stokes")
                if not np.array_equal(np.asarray(y.data), np.asarray(z.data)[:, :, k]):
                    res.violation("stokes|component", f"z[{name!r}] is not component {k}", case, sub)
                res.hits["stokes component"] += 1
        # trailing slices keeping the stokes axis
        y = z[:, :, :]
        check_labels(res, y, want, 2, bwx, scale, case, {"op": "z[:, :, :]"}, "trailing")
        res.transitions += 1
    if cls in ("RadioSignal", "IntensitySignal"):
        for idx, name in (((slice(None), slice(None), 1), "z[:, :, 1]"), ((slice(None), slice(None), slice(0, 2)), "z[:, :, 0:2]"),
                          ((slice(None), slice(1, None), 2), "z[:, 1:, 2]"), ((slice(1, 4), slice(None, -1), slice(2, 3)), "z[1:4, :-1, 2:3]")):
            s0, s1, _ = idx[1].indices(n)
            if s1 <= s0:
                continue
            y = z[idx]
            res.transitions += 1
            res.traces += 1
            res.state(key0 + ("trail", name))
            sub = {"op": name}
            check_labels(res, y, want[s0:s1], 2, bwx, scale, case, sub, "trailing")
            if idx[0] == slice(None):
                same_time(y, sub, "trailing")
            res.hits["trailing-axis selection"] += 1
    if cls in ("RadioSignal", "IntensitySignal") and n >= 2:
        # several trailing axes and index lists / integers / None on them, also SEPARATED by slices (NumPy then moves the
        # indexed axes to the front): time and channel labels must stay what they were, or the index must be refused
        z5 = factory.make(cls, np.zeros((6, n, 3, 2, 2)), sample_rate=2 * u.Hz, chan_bw=bw, fc=fc, align=case["align"], start_name="iso")
        for idx, name in (((slice(None), slice(None), [0], slice(None), 0), "z[:, :, [0], :, 0]"),
                          ((slice(None), slice(1, None), [0, 1], None, 1), "z[:, 1:, [0, 1], None, 1]"),
                          ((slice(None), slice(None), 1, slice(None), [0, 1]), "z[:, :, 1, :, [0, 1]]"),
                          ((slice(2, None), slice(None), [0, 2], [0, 1]), "z[2:, :, [0, 2], [0, 1]]"),
                          ((slice(None), slice(None), [1], [0]), "z[:, :, [1], [0]]")):
            s0, s1, _ = idx[1].indices(n)
            t0_, t1_, _ = idx[0].indices(6)
            res.transitions += 1
            try:
                y = z5[idx]
            except (IndexError, ValueError):
                res.hits["index on trailing axes refused"] += 1
                continue
            sub = {"op": name}
            if len(y) != t1_ - t0_ or y.nchan != s1 - s0:
                res.violation("trailing|index lists moved the time / channel axis", f"{name} on shape (6, {n}, 3, 2, 2): result has "
                              f"{len(y)} samples x {y.nchan} channels (shape {y.shape}), expected {t1_ - t0_} x {s1 - s0}", case, sub)
                continue
            check_labels(res, y, want[s0:s1], 2, bwx, scale, case, sub, "trailing")
            res.hits["index lists on trailing axes"] += 1
    if cls == "DualPolarizationSignal":
        y = z[:, :, :, ] if z.ndim > 3 else z[:, :, 0:2]
        res.transitions += 1
        check_labels(res, y, want, 2, bwx, scale, case, {"op": "z[:, :, 0:2]"}, "trailing")
    res.sample({"case": case, "labels_Hz": [float(w) for w in want][:4]}, 1)
    return res


def main(argv=None):
    return report.run_check(
        PID, gen_cases=gen_cases, check_case=check_case, describe=describe,
        required_hits=["odd nchan forced center", "negative channel bound", "open channel bound", "nested slice",
                       "even->even->even from non-center alignment", "combined slice", "assignment histories", "refused assignments leave labels", "like() with another channel count", "stokes component",
                       "trailing-axis selection"],
        assumptions=["Quantity unit scales are exact decimals (kHz = 1000 Hz); tolerance 8 ulp of max(|fc|, n*bw) per level",
                     "empty channel ranges and channel steps are outside the property"],
        argv=argv)


if __name__ == "__main__":
    sys.exit(main())
