"""C18 -- fast FFT lengths are the nearest 7-smooth numbers for every N.

Enumerated exhaustively: every N below a bound, N in {s-3..s+3, midpoints} for 7-smooth s < 2^62,
fast_len(z) for every signal length 0..LMAX on every class.  Oracle: bisect in the
independently generated sorted list of all 7-smooth numbers < 2^64.
"""
import sys
import bisect

import numpy as np

from pbmc import bind_repo, report, exact
from pbmc.oracles import smooth
from pbmc import factory

pb = bind_repo()
PID = "C18"

BOUNDS = {
    "quick": dict(exh_bits=20, block=1 << 14, around="third", lmax=200),
    "thorough": dict(exh_bits=23, block=1 << 16, around="all", lmax=400),
}


def describe(tier):
    b = BOUNDS[tier]
    return {
        "bounds": {"exhaustive_N_below": 2 ** b["exh_bits"],
                   "around_every_smooth_below": "2^62 (%s of the 75711): offsets -3..+3 and the midpoint to the next smooth number (+0, +1)" % b["around"],
                   "signal_lengths": [0, b["lmax"]]},
        "alphabet": ["next_fast_len(N)", "prev_fast_len(N)", "fast_len(z) on 6 classes x 2 rates x start/none",
                     "N as Python int; as numpy int8..uint64 scalar (asked before the Python int: shared memo key)", "NumPy and Dask (1 chunk, chunks of 7, two chunks) data"],
        "rule": "state = (function, N) or (class, rate, start, L); every state is one real call; "
                "expected value by bisect in the independent sorted 7-smooth list",
    }


def gen_cases(tier, seed):
    b = BOUNDS[tier]
    top = 1 << b["exh_bits"]
    for lo in range(0, top, b["block"]):
        yield {"kind": "range", "lo": lo, "hi": min(top, lo + b["block"])}
    lst = smooth.smooth_list()
    n62 = bisect.bisect_left(lst, 2 ** 62)
    if b["around"] == "third":
        idx = list(range(seed % 3, n62, 3))
    else:
        idx = list(range(n62))
    # always include the largest 64 (closest to 2^62) and smallest 64
    # always: the 64 smallest / largest, and every pure prime power 2^a, 3^b, 5^c, 7^d (extreme shapes of the search)
    pp = set()
    for p in (2, 3, 5, 7):
        v = p
        while v < 2 ** 62:
            pp.add(bisect.bisect_left(lst, v))
            v *= p
    idx = sorted(set(idx) | set(range(64)) | set(range(n62 - 64, n62)) | pp)
    per = 400
    for i in range(0, len(idx), per):
        yield {"kind": "around", "idx": idx[i:i + per]}
    yield {"kind": "npint", "hi": 4096}
    yield {"kind": "keyword"}
    # NumPy integer scalars as N (every width that can hold the value), asked BEFORE the Python int of the same value
    # (the memo treats them as one key): around every prime power and a rotating slice of the smooth numbers
    npidx = sorted(pp | set(range(seed % 97, n62, 97)))
    for i in range(0, len(npidx), 200):
        yield {"kind": "npwide", "idx": npidx[i:i + 200]}
    for cls in factory.CLASSES:
        for rate_name in ("1Hz", "3.7GHz"):
            for start_name in ("none", "iso"):
                yield {"kind": "fast_len", "cls": cls, "rate": rate_name, "start": start_name,
                       "lmax": b["lmax"]}


def _check_value(res, fn_name, n, got, want, case):
    res.transitions += 1
    res.traces += 1
    res.state((fn_name, n))
    if type(got) is bool or got != want:
        res.violation(f"{fn_name}|wrong value", f"{fn_name}({n}) = {got!r}, nearest 7-smooth is {want}",
                      case, {"N": n})
        return
    if got == n:
        res.hits["N itself smooth"] += 1
    else:
        res.hits["N not smooth"] += 1


def check_case(case):
    res = report.Result()
    lst = smooth.smooth_list()
    nfl, pfl = pb.utils.next_fast_len, pb.utils.prev_fast_len
    kind = case["kind"]
    if kind == "range":
        for n in range(case["lo"], case["hi"]):
            _check_value(res, "next_fast_len", n, nfl(n), smooth.ref_next(n, lst), case)
            _check_value(res, "prev_fast_len", n, pfl(n), smooth.ref_prev(n, lst), case)
        res.sample({"N": case["lo"] + 11, "next": nfl(case["lo"] + 11), "prev": pfl(case["lo"] + 11)}, 1)
    elif kind == "around":
        for i in case["idx"]:
            s = lst[i]
            mid = (s + lst[i + 1]) // 2             # a number far from every 7-smooth number at this scale
            for n in (s - 3, s - 2, s - 1, s, s + 1, s + 2, s + 3, mid, mid + 1):
                if n < 0:
                    continue
                _check_value(res, "next_fast_len", n, nfl(n), smooth.ref_next(n, lst), case)
                _check_value(res, "prev_fast_len", n, pfl(n), smooth.ref_prev(n, lst), case)
            if s > 2 ** 40:
                res.hits["N above 2^40"] += 1
        s = lst[case["idx"][-1]]
        res.sample({"N": s + 1, "next": nfl(s + 1), "prev": pfl(s + 1)}, 1)
    elif kind == "keyword":
        # N passed by keyword, many different values in a row (a memo must key on the value however it is passed)
        for n in list(range(0, 300)) + [4097, 4102, 2 ** 40 + 12345, 11, 12, 11]:
            for fn_name, fn, ref in (("next_fast_len", nfl, smooth.ref_next), ("prev_fast_len", pfl, smooth.ref_prev)):
                got = fn(N=n)
                res.transitions += 1
                res.traces += 1
                res.state((fn_name, "keyword", n))
                if type(got) is bool or got != ref(n, lst):
                    res.violation(f"{fn_name}|keyword argument|wrong value", f"{fn_name}(N={n}) = {got!r}, nearest 7-smooth is {ref(n, lst)}",
                                  case, {"N": n})
                    break
        res.hits["N passed by keyword"] += 1
    elif kind == "npint":
        for n in range(case["hi"]):
            for fn_name, fn, ref in (("next_fast_len", nfl, smooth.ref_next), ("prev_fast_len", pfl, smooth.ref_prev)):
                got = fn(np.int64(n))
                res.transitions += 1
                res.traces += 1
                res.state((fn_name, "np.int64", n))
                if int(got) != ref(n, lst):
                    res.violation(f"{fn_name}|np.int64|wrong value",
                                  f"{fn_name}(np.int64({n})) = {got!r}, want {ref(n, lst)}", case, {"N": n})
    elif kind == "npwide":
        import warnings
        for i in case["idx"]:
            s = lst[i]
            for n in (s - 1, s, s + 1, (s + lst[i + 1]) // 2):
                if n < 0:
                    continue
                for T in (np.int8, np.uint8, np.int16, np.uint16, np.int32, np.uint32, np.int64, np.uint64):
                    if n > np.iinfo(T).max:
                        continue
                    for fn_name, fn, ref in (("next_fast_len", nfl, smooth.ref_next), ("prev_fast_len", pfl, smooth.ref_prev)):
                        want = ref(n, lst)
                        fn.cache_clear()
                        with warnings.catch_warnings():
                            warnings.simplefilter("ignore")
                            got = fn(T(n))
                            again = fn(n)           # the Python int right after (same memo key)
                        res.transitions += 2
                        res.traces += 2
                        res.state((fn_name, T.__name__, n))
                        if int(got) != want or int(again) != want:
                            res.violation(f"{fn_name}|numpy integer argument|wrong value",
                                          f"{fn_name}(np.{T.__name__}({n})) = {got!r}, then {fn_name}({n}) = {again!r}; nearest 7-smooth is {want}",
                                          case, {"N": n, "type": T.__name__})
                        elif 2 * n > np.iinfo(T).max:
                            res.hits["numpy integer whose double does not fit its width"] += 1
    elif kind == "fast_len":
        cls = case["cls"]
        for L in range(0, case["lmax"] + 1):
            z = factory.make_encoded(cls, L, nchan=2, rate_name=case["rate"], start_name=case["start"])
            out = pb.fast_len(z)
            res.transitions += 1
            res.traces += 1
            res.state((cls, case["rate"], case["start"], L))
            want = smooth.ref_prev(L, lst)
            sub = {"L": L}
            if type(out) is not type(z):
                res.violation("fast_len|type", f"type {type(out).__name__} != {type(z).__name__}", case, sub)
            if len(out) != want:
                res.violation("fast_len|length", f"len(fast_len(z))={len(out)} for len(z)={L}, want {want}", case, sub)
                continue
            if not np.array_equal(np.asarray(out.data), np.asarray(z.data)[:want]) or out.dtype != z.dtype:
                res.violation("fast_len|data", f"retained samples differ from z[:{want}] for L={L}", case, sub)
            if (out.start_time is None) != (z.start_time is None):
                res.violation("fast_len|start none-ness", f"start_time None-ness changed L={L}", case, sub)
            elif z.start_time is not None:
                # "timestamps untouched": the very same two doubles
                d = abs(exact.time_days(out.start_time) - exact.time_days(z.start_time))
                if d != 0 or out.start_time.scale != z.start_time.scale:
                    res.violation("fast_len|start_time", f"start_time moved by {float(d)*86400:.3e} s for L={L}", case, sub)
            if out.sample_rate != z.sample_rate:
                res.violation("fast_len|sample_rate", f"sample_rate changed L={L}", case, sub)
            if L == 11 and z.start_time is not None and cls == "Signal":
                # generic epochs (two doubles with all their bits) on several scales: a UTC epoch plus zero seconds is not always
                # the same two doubles back, so the start time must simply be kept
                from astropy.time import Time as _T
                fam = [(2456426.0, 0.49982579782510306, "utc"), (2459393.0, -0.2505799961106504, "utc")]
                fam += [(2451545.0 + 37 * i, ((i * 0.6180339887498949) % 1.0) - 0.5, ("utc", "tai", "tt")[i % 3]) for i in range(600)]
                bad = 0
                for jd1, jd2, sc in fam:
                    t0 = _T(jd1, jd2, format="jd", scale=sc)
                    zz = type(z).like(z, start_time=t0)
                    o2 = pb.fast_len(zz)
                    res.transitions += 1
                    if (o2.start_time.jd1, o2.start_time.jd2) != (zz.start_time.jd1, zz.start_time.jd2) and not bad:
                        bad += 1
                        res.violation("fast_len|start_time", f"start_time (jd1, jd2) = ({jd1!r}, {jd2!r}) {sc} came back as "
                                      f"({o2.start_time.jd1!r}, {o2.start_time.jd2!r}) after cropping 11 -> 10 samples", case,
                                      {"jd1": jd1, "jd2": jd2, "scale": sc})
                res.hits["generic epochs kept bit for bit"] += 1
            if want < L:
                res.hits["fast_len cropped"] += 1
            else:
                res.hits["fast_len kept all"] += 1
            # flagged data (a masked array): the retained samples keep their flags
            if L in (11, 16, 23, 53) and z.dtype.kind in "fc":
                msk = (np.arange(int(np.prod(z.shape))).reshape(z.shape) % 3 == 0)
                zm = type(z).like(z, np.ma.MaskedArray(np.array(np.asarray(z.data)), mask=msk))
                if isinstance(zm.data, np.ma.MaskedArray):
                    om = pb.fast_len(zm)
                    res.transitions += 1
                    if not isinstance(om.data, np.ma.MaskedArray) or len(om) != want or \
                            not np.array_equal(np.ma.getmaskarray(om.data), msk[:want]) or \
                            not np.array_equal(np.asarray(np.ma.getdata(om.data)), np.asarray(z.data)[:want]):
                        res.violation("fast_len|masked data", f"L={L}: the retained samples lost their mask or values "
                                      f"({type(om.data).__name__})", case, sub)
                    else:
                        res.hits["fast_len on masked data"] += 1
            # the same on Dask-backed data, one chunk and several chunks along time
            if L % 3 == case["lmax"] % 3 or L < 40:
                import dask.array as da
                for chunks in ((max(L, 1),), (7,), (max(1, L // 2),)):
                    zd = type(z).like(z, da.from_array(np.asarray(z.data), chunks=chunks + tuple(z.shape[1:])))
                    od = pb.fast_len(zd)
                    res.transitions += 1
                    if not isinstance(od.data, da.Array) or len(od) != want or tuple(od.shape) != (want,) + tuple(z.shape[1:]):
                        res.violation("fast_len|dask|advertised length", f"L={L} chunks={chunks}: type {type(od.data).__name__}, "
                                      f"shape {od.shape}, want length {want}", case, dict(sub, chunks=list(chunks)))
                        continue
                    got = np.asarray(od.data.compute())
                    if got.shape != np.asarray(out.data).shape or not np.array_equal(got, np.asarray(out.data)):
                        res.violation("fast_len|dask|data", f"L={L} chunks={chunks}: computed samples differ from z[:{want}]",
                                      case, dict(sub, chunks=list(chunks)))
                    if (od.start_time is None) != (z.start_time is None) or (
                            z.start_time is not None and exact.time_days(od.start_time) != exact.time_days(out.start_time)):
                        res.violation("fast_len|dask|start_time", f"L={L}", case, dict(sub, chunks=list(chunks)))
                    res.hits["fast_len on Dask data"] += 1
        res.sample({"cls": cls, "L": 11, "len(fast_len)": len(pb.fast_len(
            factory.make_encoded(cls, 11, rate_name=case["rate"], start_name=case["start"])))}, 1)
    return res


def main(argv=None):
    return report.run_check(
        PID, gen_cases=gen_cases, check_case=check_case, describe=describe,
        required_hits=["N itself smooth", "N not smooth", "N above 2^40", "fast_len cropped", "fast_len kept all",
                       "fast_len on Dask data", "numpy integer whose double does not fit its width", "N passed by keyword", "fast_len on masked data", "generic epochs kept bit for bit"],
        assumptions=["N is a Python int, or a NumPy integer scalar of any width that holds it (around the prime powers and 1/97 of the smooth numbers)",
                     "7-smooth reference list generated by nested multiplication, self-checked against trial division"],
        argv=argv)


if __name__ == "__main__":
    sys.exit(main())
