"""Exact (rational) cold-plasma dispersion law, independent of pulsarbat's float evaluation.

delay(f, f_ref) = K * DM * (f^-2 - f_ref^-2),  K = 1 / 2.41e-4  s MHz^2 cm^3 / pc.
"""
from fractions import Fraction as F
import math

K = 1 / F("2.41e-4")          # s MHz^2 / (pc cm^-3), the statement's constant


def delay_s(dm, f_hz, fref_hz):
    """Exact delay in seconds of frequency f relative to f_ref (Fractions; DM in pc/cm^3)."""
    fm = F(f_hz) / 10 ** 6
    inv_r2 = F(0) if fref_hz is None else 1 / (F(fref_hz) / 10 ** 6) ** 2      # None = infinite reference frequency
    return K * F(dm) * (1 / fm ** 2 - inv_r2)


def delay_samples(dm, f_hz, fref_hz, sr_hz):
    return delay_s(dm, f_hz, fref_hz) * F(sr_hz)


def chirp_phase_cycles(dm, f_hz, fref_hz):
    """phi = K*DM*f*(1/f_ref - 1/f)^2 in cycles (f in MHz inside, K in s MHz^2 -> cycles = s*MHz*1e6)."""
    fm = F(f_hz) / 10 ** 6
    inv_r = F(0) if fref_hz is None else 1 / (F(fref_hz) / 10 ** 6)             # None = infinite reference frequency
    # K [s MHz^2] * f[MHz] * (1/MHz)^2 = s * MHz = 1e6 cycles
    return K * F(dm) * fm * (inv_r - 1 / fm) ** 2 * 10 ** 6


def near_integer(x, eps=F(1, 10 ** 9)):
    """True if the Fraction x is within eps of an integer."""
    r = x - math.floor(x)
    return r <= eps or (1 - r) <= eps


def near_half_integer(x, eps=F(1, 10 ** 9)):
    return near_integer(x - F(1, 2), eps)


def coherent_crop(dm, fmin_hz, fmax_hz, fref_hz, sr_hz, n):
    """(start, stop, unconstrained) of the valid-time window; exact band-edge delays in samples."""
    dt = delay_samples(dm, fmax_hz, fref_hz, sr_hz)
    db = delay_samples(dm, fmin_hz, fref_hz, sr_hz)
    lo = -min(0, dt, db)
    hi = max(0, dt, db)
    # a band-edge delay that is non-zero but within 1e-9 of a whole sample (including ~1e-16 next to zero, e.g. when the
    # reference is the band edge expressed in another unit) may fall on either side in float arithmetic: the crop is left open
    unconstrained = any(d != 0 and near_integer(d) for d in (dt, db))
    start = math.ceil(lo)
    stop = n - math.ceil(hi)
    return start, stop, unconstrained, (dt, db)
