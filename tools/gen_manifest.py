#!/usr/bin/env python3
"""Regenerates /verif/MANIFEST.json from the table below (keeps it valid at all times)."""
import json, os, sys
HERE = os.path.dirname(os.path.dirname(os.path.abspath(__file__)))
sys.path.insert(0, HERE)
from tools.manifest_table import CHECKS, NOT_APPLICABLE, SOURCE_COMMITS  # noqa

BASELINE = ("cd /repo && /venv/bin/python -m pytest -ra -q -p no:cacheprovider --timeout=900 "
            "--continue-on-collection-errors")
m = {
    "version": 1,
    "setup_cmd": "cd /verif && PYTHONPATH=/repo:/verif PYTHONDONTWRITEBYTECODE= /venv/bin/python -W ignore -m pbmc.selftest",
    "hooks": {
        "guard": "PULSARBAT_VERIF",
        "enable": "No instrumentation is compiled into /repo: checks import the pure-Python working tree of "
                  "$PULSARBAT_REPO (default /repo) first on sys.path and observe it through public attributes, "
                  "sys.settrace, Dask's scheduler= callable and wrapper objects; run_check.sh exports PULSARBAT_VERIF=1 "
                  "(unused by the library).",
        "baseline_off_cmd": BASELINE,
        "source_commits": SOURCE_COMMITS,
        "add_only": True,
    },
    "engines": [
        {"name": "pbmc", "path": "/verif/pbmc",
         "serves_properties": [c["property_id"] for c in CHECKS],
         "kind_free_text": "hand-written explicit-state / bounded-exhaustive explorer for Python: simplest-first "
                           "enumeration of finite input/configuration spaces, BFS over operation sequences on real "
                           "objects with an exact-rational reference ledger, deviation-bounded DFS over Dask task "
                           "orders (controlled scheduler=) and over thread interleavings (sys.settrace baton scheduler)"},
    ],
    "checks": [],
    "not_applicable": NOT_APPLICABLE,
    "notes": "All checks: ./run_check.sh cNN <tier>; VERIF_SEED only rotates visiting order / fills non-enumerated payloads. "
             "known_findings.jsonl lists recorded (known) and repaired (fixed) defects by site key.",
}
for c in CHECKS:
    pid = c["property_id"]; mod = pid.lower()
    m["checks"].append({
        "property_id": pid,
        "quick_cmd": f"./run_check.sh {mod} quick",
        "thorough_cmd": f"./run_check.sh {mod} thorough",
        "evidence_file": f"/verif/evidence/{pid}.json",
        "replay_cmd_template": f"./run_check.sh {mod} quick --replay {{path}}",
        "engine": "pbmc",
        "level_claimed": {"category": "model_checking", "text": c["text"], "design_ref": f"DESIGN.md section {pid}"},
        "level_note": c["note"],
        "technique": c["technique"],
    })
with open(os.path.join(HERE, "MANIFEST.json"), "w") as f:
    json.dump(m, f, indent=1)
print("wrote MANIFEST.json with", len(m["checks"]), "checks;", len(NOT_APPLICABLE), "not_applicable")
