"""setup_cmd: byte-compile the framework and self-test the reference oracles (offline, no /repo edits)."""
import compileall
import os
import sys

from . import VERIF


def main():
    ok = compileall.compile_dir(os.path.join(VERIF, "pbmc"), quiet=1, force=True)
    ok &= compileall.compile_dir(os.path.join(VERIF, "checks"), quiet=1, force=True)
    from .oracles import smooth
    n = smooth.selftest()
    print(f"smooth oracle ok ({n} numbers < 2^64)")
    try:
        from .oracles import dft
        dft.selftest()
        print("dft oracle ok")
    except ImportError:
        pass
    from . import bind_repo
    pb = bind_repo()
    print("pulsarbat bound at", pb.__file__)
    return 0 if ok else 1


if __name__ == "__main__":
    sys.exit(main())
