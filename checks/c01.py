"""C01 -- retained samples keep their absolute timestamps under every crop or slice.

(a) single crops, exhaustively: every slice triple, fast_len, cropped time shifts, whole-sample
    snippets, dedispersion edge crops, on every class x length x rate x start.
(b) pipelines: breadth-first search over sequences of crop operations from non-initial states,
    each state = real signal + exact ledger (offset on the original grid, step, length).
Oracle: ledger in exact rational arithmetic on the Time two-double representation; payload that
encodes (time index, element) so pure crops are traced bit-exactly.
"""
import itertools
import math
import sys
from fractions import Fraction as F

import numpy as np
import astropy.units as u
from astropy.time import Time

from pbmc import bind_repo, report, exact, factory
from pbmc.exact import ULP_T, time_days as T, hz, sec
from pbmc.oracles import smooth, dispersion

pb = bind_repo()
PID = "C01"

BOUNDS = {
    "quick": dict(lengths=[0, 1, 2, 5, 9], steps=[None, 1, 2, 3, 7],
                  rates=["1mHz", "third_Hz", "1Hz", "1kHz", "1MHz", "800MHz", "3.7GHz"],
                  starts=["none", "iso", "halfday_minus"], bfs_depth=3, bfs_L=16,
                  bfs_cfg=[("Signal", "1Hz", "iso"), ("BasebandSignal", "1MHz", "iso"),
                           ("BasebandSignal", "3.7GHz", "halfday_minus"), ("FullStokesSignal", "third_Hz", "iso"),
                           ("DualPolarizationSignal", "800MHz", "none"), ("IntensitySignal", "1mHz", "halfday_plus")]),
    "thorough": dict(lengths=[0, 1, 2, 5, 9, 16], steps=[None, 1, 2, 3, 5, 7],
                     rates=["1mHz", "third_Hz", "1Hz", "1kHz", "1MHz", "third_MHz", "800MHz", "1GHz", "3.7GHz"],
                     starts=["none", "iso", "halfday_minus", "halfday_plus"], bfs_depth=4, bfs_L=24,
                     bfs_cfg=[(c, r, s) for c in factory.CLASSES for r in ("third_Hz", "1MHz", "3.7GHz")
                              for s in ("iso", "halfday_minus")]),
}

REL = F(1, 2 ** 52)


def describe(tier):
    b = BOUNDS[tier]
    return {
        "bounds": {"lengths": b["lengths"], "slice bounds": "None and every integer in [-L-2, L+2]",
                   "steps": b["steps"], "rates": b["rates"], "starts": b["starts"],
                   "pipeline depth": b["bfs_depth"], "pipeline initial length": b["bfs_L"]},
        "alphabet": ["z[a:b:step]", "fast_len", "time_shift(crop=True) scalar/array/mixed sign", "snippet(whole t, n)",
                     "coherent_dedispersion crop", "incoherent_dedispersion (zero-delay channel traced)",
                     "contains(t) scalar/array/in", "stop_time/dt/time_length"],
        "rule": "state = (class, rate, start, ledger(offset, step, length), jd bits of start_time); transition = one real "
                "crop operation; oracle = exact ledger on (jd1, jd2) in Fractions; pure crops traced bit-exactly through "
                "an index-encoding payload",
    }


def gen_cases(tier, seed):
    b = BOUNDS[tier]
    for ci, cls in enumerate(factory.CLASSES):
        for ri, rate in enumerate(b["rates"]):
            # quick: the full rate list for Signal and BasebandSignal, a rotating triple of rates for the other classes
            if tier == "quick" and cls not in ("Signal", "BasebandSignal") and (ri + ci) % 7 not in (0, 2, 5):
                continue
            for st in b["starts"]:
                for L in b["lengths"]:
                    yield {"kind": "slices", "cls": cls, "rate": rate, "start": st, "L": L, "steps": b["steps"]}
                yield {"kind": "crops", "cls": cls, "rate": rate, "start": st, "lengths": [x for x in b["lengths"] if x]}
            if cls == "Signal" and ri < 2:
                # sample rate given as a single-precision Quantity
                r32 = ("third_Hz_f32", "3.7GHz_f32")[ri]
                for st in ("iso", "halfday_minus"):
                    for L in (5, 9):
                        yield {"kind": "slices", "cls": cls, "rate": r32, "start": st, "L": L, "steps": b["steps"]}
                    yield {"kind": "crops", "cls": cls, "rate": r32, "start": st, "lengths": [5, 9]}
            if cls in ("Signal", "DualPolarizationSignal") and (tier != "quick" or ri % 2 == 0):
                # a start time kept on the TAI scale (MJD format)
                for L in (2, 9):
                    yield {"kind": "slices", "cls": cls, "rate": rate, "start": "tai", "L": L, "steps": b["steps"]}
                yield {"kind": "crops", "cls": cls, "rate": rate, "start": "tai", "lengths": [5, 9]}
    for cls in ("BasebandSignal", "DualPolarizationSignal"):
        for rate in ("1kHz", "1MHz", "3.7GHz"):
            for st in ("none", "iso"):
                yield {"kind": "dedisp", "cls": cls, "rate": rate, "start": st}
    for cls in factory.CLASSES:
        yield {"kind": "setters", "cls": cls, "rate": "1kHz", "start": "iso"}
    yield {"kind": "setters", "cls": "BasebandSignal", "rate": "3.7GHz", "start": "none"}
    for cls in factory.CLASSES:
        yield {"kind": "leap", "cls": cls}
    for cls, rate, st in list(b["bfs_cfg"]) + [("RadioSignal", "1kHz", "tai")]:
        yield {"kind": "bfs", "cls": cls, "rate": rate, "start": st, "L": b["bfs_L"], "depth": b["bfs_depth"]}


# ----------------------------------------------------------------------------------------------
class Ledger:
    """Reference model of a crop pipeline: which original samples the state holds."""
    __slots__ = ("offset", "step", "length", "nops", "traceable")

    def __init__(self, offset, step, length, nops, traceable):
        self.offset, self.step, self.length, self.nops, self.traceable = offset, step, length, nops, traceable

    def key(self):
        return (self.offset, self.step, self.length, self.traceable)


class Base:
    def __init__(self, z):
        self.z = z
        self.cls = type(z)
        self.sr = hz(z.sample_rate)
        self.T0 = None if z.start_time is None else T(z.start_time)
        self.data = np.asarray(z.data)


def check_state(res, base, out, led, case, sub, site):
    """Compare a reached real signal with the ledger.  Returns True if consistent."""
    ok = True

    def bad(what, msg):
        nonlocal ok
        ok = False
        res.violation(f"{site}|{what}", f"{msg} [{sub}]", case, sub)

    if type(out) is not base.cls:
        bad("type", f"type {type(out).__name__} != {base.cls.__name__}")
        return False
    if len(out) != led.length:
        bad("length", f"len={len(out)} expected {led.length}")
        return False
    want_sr = base.sr / led.step
    got_sr = hz(out.sample_rate)
    if not res.ratio("sample_rate err / (4 ulp * nops)", abs(got_sr - want_sr), want_sr * 4 * max(1, led.nops) * REL):
        bad("sample_rate", f"sample_rate {out.sample_rate!r}, expected {float(want_sr)} Hz (input rate / step {led.step})")
    if (out.start_time is None) != (base.T0 is None):
        bad("start none-ness", f"start_time {out.start_time!r} but input start was {'None' if base.T0 is None else 'set'}")
        return False
    if base.T0 is None:
        if out.stop_time is not None:
            bad("stop none-ness", "stop_time appeared on a signal without start")
    else:
        Ts, Te = T(out.start_time), T(out.stop_time)
        if led.length > 0:
            delta = F(led.offset) / base.sr / 86400
            tol = 2 * max(1, led.nops) * ULP_T + 8 * F(1, 2 ** 53) * abs(delta)
            err = abs(Ts - base.T0 - delta)
            if not res.ratio("start_time err / budget", err, tol):
                bad("start_time", f"start_time off by {float(err * 86400 * base.sr):.6g} input samples "
                    f"({float(err / ULP_T):.3g} ulp_T); expected offset {led.offset} samples")
        span = F(led.length) / got_sr / 86400
        tol = 2 * ULP_T + 8 * F(1, 2 ** 53) * abs(span)
        if not res.ratio("stop-start err / budget", abs(Te - Ts - span), tol):
            bad("stop_time", f"stop_time - start_time = {float((Te - Ts) * 86400):.12g} s, expected len/sample_rate = "
                f"{float(span * 86400):.12g} s")
    # dt and time_length consistent with the output's own rate
    if abs(sec(out.dt) - 1 / got_sr) > 4 * REL / got_sr:
        bad("dt", f"dt {out.dt!r} != 1/sample_rate")
    if abs(sec(out.time_length) - led.length / got_sr) > 4 * REL * led.length / got_sr:
        bad("time_length", f"time_length {out.time_length!r} != len/sample_rate")
    if led.traceable:
        want = base.data[led.offset: led.offset + led.length * led.step: led.step]
        got = np.asarray(out.data)
        if got.shape != want.shape or got.dtype != want.dtype or not np.array_equal(got, want):
            bad("samples", "retained samples are not the input samples the ledger names")
    return ok


def check_contains(res, out, case, sub, site):
    """contains(t) vs the half-open interval [start, stop) in exact arithmetic."""
    L = len(out)
    if out.start_time is None:
        tt = Time(["2021-01-01T00:00:00", "2021-01-01T00:00:01"], format="isot", precision=9)
        r = out.contains(tt)
        res.transitions += 3
        if not (isinstance(r, np.ndarray) and r.shape == (2,) and not r.any()):
            res.violation(f"{site}|contains no-start array", f"contains(array) on start-less signal -> {r!r}", case, sub)
        if out.contains(tt[0]) is not False and bool(out.contains(tt[0])):
            res.violation(f"{site}|contains no-start scalar", "contains(t) True on start-less signal", case, sub)
        if tt[0] in out:
            res.violation(f"{site}|contains no-start in", "'t in z' True on start-less signal", case, sub)
        res.hits["contains on start-less"] += 1
        return
    sr = hz(out.sample_rate)
    Ts = T(out.start_time)
    ks = [F(k, 2) for k in range(-2, 2 * L + 4)]
    dts = np.array([float(k) for k in ks]) / out.sample_rate
    tt = out.start_time + dts
    r = np.asarray(out.contains(tt))
    res.transitions += 1
    span = F(L) / sr / 86400
    n_in = n_out = 0
    for i, k in enumerate(ks):
        Ti = F(float(tt.jd1[i])) + F(float(tt.jd2[i]))
        d = Ti - Ts
        if abs(d) <= 4 * ULP_T or abs(d - span) <= 4 * ULP_T:
            res.skipped["contains: instant within 4 ulp_T of an edge"] += 1
            continue
        want = (0 <= d < span)
        n_in += want
        n_out += not want
        if bool(r[i]) != want:
            res.violation(f"{site}|contains array", f"contains(start + {k} samples) = {bool(r[i])}, expected {want} "
                          f"(len {L})", case, dict(sub, k=str(k)))
    res.hits["contains inside"] += n_in
    res.hits["contains outside"] += n_out
    # the same instants expressed on other time scales denote the same times
    margin = F(1, 10 ** 9) / 86400
    for scale in ("tai", "tt"):
        try:
            r2 = np.asarray(out.contains(getattr(tt, scale)))
        except Exception as e:
            res.violation(f"{site}|contains probe on another scale raised", f"{scale}: {type(e).__name__}: {e}", case, sub)
            continue
        res.transitions += 1
        for i, k in enumerate(ks):
            d = F(float(tt.jd1[i])) + F(float(tt.jd2[i])) - Ts
            if abs(d) <= margin or abs(d - span) <= margin:
                continue
            if bool(r2[i]) != (0 <= d < span):
                res.violation(f"{site}|contains probe on another scale", f"contains((start + {k} samples).{scale}) = {bool(r2[i])}, "
                              f"expected {0 <= d < span} (len {L})", case, dict(sub, k=str(k), scale=scale))
                break
        else:
            res.hits["contains probe on another time scale"] += 1
    # exact edges, by identity of the signal's own attributes
    res.transitions += 4
    a = bool(out.contains(out.start_time))
    if a != (L > 0):
        res.violation(f"{site}|contains start edge", f"contains(z.start_time) = {a} with len {L}", case, sub)
    if bool(out.contains(out.stop_time)):
        res.violation(f"{site}|contains stop edge", f"contains(z.stop_time) = True (interval must be half-open), len {L}",
                      case, sub)
    if (out.start_time in out) != (L > 0):
        res.violation(f"{site}|in start edge", f"'z.start_time in z' wrong with len {L}", case, sub)
    # scalar interior/exterior
    if L > 0:
        tmid = out.start_time + (L - 0.5) / out.sample_rate
        if not bool(out.contains(tmid)):
            res.violation(f"{site}|contains scalar", "contains(last half sample) False", case, sub)
        tout = out.start_time + (L + 0.5) / out.sample_rate
        if bool(out.contains(tout)):
            res.violation(f"{site}|contains scalar", "contains(stop + half sample) True", case, sub)
        res.transitions += 2


# -- operations: ["slice", a, b, step] etc.  model(op, led, base, cur) -> new ledger | None (not applicable) | "skip"
def apply_op(op, cur):
    k = op[0]
    if k == "slice":
        return cur[op[1]:op[2]:op[3]]
    if k == "fast_len":
        return pb.fast_len(cur)
    if k == "tshift":
        return pb.time_shift(cur, _shift_arg(op[1], cur), crop=True)
    if k == "snippet":
        t, n = _snip_args(op, len(cur))
        return pb.snippet(cur, t, n)
    if k == "coh":
        dm, ref = _dedisp_args(op, cur)
        return pb.coherent_dedispersion(cur, dm, ref_freq=ref)
    if k == "incoh":
        dm, ref = _dedisp_args(op, cur)
        return pb.incoherent_dedispersion(cur, dm, ref_freq=ref)
    raise KeyError(k)


def _shift_arg(spec, cur):
    """spec: number -> scalar shift; list -> per-channel array broadcast on the first sample axis."""
    if isinstance(spec, list):
        n = cur.sample_shape[0] if cur.sample_shape else 1
        vals = [spec[i % len(spec)] for i in range(n)]
        if not cur.sample_shape:
            return float(vals[0])
        return np.array(vals, dtype=float)
    return spec


def _shift_values(spec, cur):
    a = _shift_arg(spec, cur)
    return [float(v) for v in np.atleast_1d(a)]


def _snip_args(op, L):
    t, n = op[1], op[2]
    if n == "rest-1":
        n = L - t - 1
    return t, n


def _exact_band(cur):
    fc, bw, n = hz(cur.center_freq), hz(cur.chan_bw), cur.nchan
    a = {"bottom": F(0), "center": F(1, 2), "top": F(1)}[cur.freq_align]
    labels = [fc + bw * (i + a - F(n, 2)) for i in range(n)]
    return fc, bw, n, labels


def _dedisp_args(op, cur):
    """DM chosen so that the band sweep is op[1] samples at the current metadata; ref by kind op[2]."""
    fc, bw, n, labels = _exact_band(cur)
    fmin, fmax = fc - bw * n / 2, fc + bw * n / 2
    refkind = op[2]
    if refkind == "center":
        ref = cur.center_freq
        refx = fc
    elif refkind == "top":
        ref, refx = cur.max_freq, hz(cur.max_freq)
    elif refkind == "bottom":
        ref, refx = cur.min_freq, hz(cur.min_freq)
    elif refkind == "above":
        ref = cur.max_freq + 2 * cur.chan_bw
        refx = hz(ref)
    elif refkind.startswith("label"):
        i = min(int(refkind[5:]), n - 1)
        ref = cur.channel_freqs[i]
        refx = hz(ref)
    else:
        raise KeyError(refkind)
    unit_sweep = dispersion.delay_samples(1, fmin, refx, hz(cur.sample_rate)) - \
        dispersion.delay_samples(1, fmax, refx, hz(cur.sample_rate))
    dm = float(F(op[1]) / unit_sweep) if unit_sweep != 0 else 0.0
    return pb.DM(dm), ref


def model_op(op, led, cur, res):
    """Reference model.  Returns a new Ledger, or a string reason when the property does not constrain the result."""
    k = op[0]
    L = led.length
    n1 = led.nops + 1
    if k == "slice":
        s0, s1, sp = slice(op[1], op[2], op[3]).indices(L)
        ln = len(range(s0, s1, sp))
        if op[1] is not None and op[1] < 0:
            res.hits["negative start bound"] += 1
        if (op[1] is not None and not (-L <= op[1] <= L)) or (op[2] is not None and not (-L <= op[2] <= L)):
            res.hits["out-of-range bound clamped"] += 1
        if sp > 1:
            res.hits["stepped slice"] += 1
        if ln == 0:
            res.hits["empty result"] += 1
        return Ledger(led.offset + s0 * led.step, led.step * sp, ln, n1, led.traceable)
    if k == "fast_len":
        return Ledger(led.offset, led.step, smooth.ref_prev(L), n1, led.traceable)
    if k == "tshift":
        if L == 0:
            return "time_shift of an empty signal"
        vals = [F(v) for v in _shift_values(op[1], cur)]
        if all(v == 0 for v in vals):
            return Ledger(led.offset, led.step, L, n1, led.traceable)
        front = max(0, math.ceil(max(vals)))
        back = max(0, math.ceil(-min(vals)))
        ln = max(0, L - front - back)
        if front + back > L:
            res.hits["shift crop exceeds length"] += 1
        if front and back:
            res.hits["mixed-sign shift crop"] += 1
        return Ledger(led.offset + front * led.step, led.step, ln, n1, False)
    if k == "snippet":
        t, n = _snip_args(op, L)
        if t < 0 or n < 0 or t + n > L:
            return "snippet out of range (C12)"
        return Ledger(led.offset + t * led.step, led.step, n, n1, led.traceable)
    if k == "coh":
        if not isinstance(cur, pb.BasebandSignal) or L == 0:
            return "not baseband / empty"
        dm, ref = _dedisp_args(op, cur)
        fc, bw, n, labels = _exact_band(cur)
        # band edges = the exact values of the public min_freq / max_freq attributes (their own law is C02's)
        lab_ = cur.channel_freqs
        lo_, hi_ = hz(lab_[0]) - hz(cur.chan_bw) / 2, hz(lab_[-1]) + hz(cur.chan_bw) / 2       # the band actually covered by the channels
        start, stop, unc, _ = dispersion.coherent_crop(F(float(dm.value)), lo_, hi_, hz(ref),
                                                       hz(cur.sample_rate), L)
        if unc:
            return "band-edge delay within 1e-9 of an integer"
        if stop < start:
            res.hits["block shorter than sweep"] += 1
        return Ledger(led.offset + start * led.step, led.step, max(0, stop - start), n1, False)
    if k == "incoh":
        return "relational"
    raise KeyError(k)


def step_op(res, base, cur, led, op, case, path, site_prefix="pipeline"):
    """Apply one op on the real signal and on the model; check; return (out, new_ledger) or None."""
    sub = {"path": path + [op], "len_before": led.length}
    site = f"{site_prefix}|{op[0]}"
    if op[0] == "incoh":
        return _incoh_step(res, base, cur, led, op, case, sub, site)
    new = model_op(op, led, cur, res)
    if isinstance(new, str):
        res.skipped[new] += 1
        return None
    try:
        out = apply_op(op, cur)
    except Exception as e:
        res.transitions += 1
        res.violation(f"{site}|raised", f"{type(e).__name__}: {e}", case, sub)
        return None
    res.transitions += 1
    ok = check_state(res, base, out, new, case, sub, site)
    return (out, new) if ok else None


def _incoh_step(res, base, cur, led, op, case, sub, site):
    if not isinstance(cur, pb.RadioSignal) or not led.traceable or led.length == 0:
        res.skipped["incoherent: not radio / payload not traceable / empty"] += 1
        return None
    dm, ref = _dedisp_args(op, cur)
    i0 = min(int(op[2][5:]), cur.nchan - 1)
    try:
        out = pb.incoherent_dedispersion(cur, dm, ref_freq=ref)
    except Exception as e:
        res.transitions += 1
        # raising is acceptable only if no instant has in-range sources; decided in C06, not here
        res.skipped["incoherent raised (window judged in C06)"] += 1
        return None
    res.transitions += 1
    if len(out) == 0:
        res.skipped["incoherent empty result"] += 1
        return None
    d = np.asarray(out.data)
    col = d[(slice(None), i0) + (0,) * (d.ndim - 2)]
    idx = np.floor(np.real(col) / 1024).astype(int)      # original time indices of the zero-delay channel
    if not np.array_equal(col, base.data[(idx, i0) + (0,) * (d.ndim - 2)]) or \
            (len(idx) > 1 and not np.all(np.diff(idx) == led.step)):
        res.violation(f"{site}|zero-delay channel", "zero-delay channel is not a plain crop of the input", case, sub)
        return None
    new = Ledger(int(idx[0]), led.step, len(out), led.nops + 1, False)
    res.hits["incoherent traced"] += 1
    if new.offset != led.offset:
        res.hits["incoherent front crop"] += 1
    ok = check_state(res, base, out, new, case, sub, site)
    return (out, new) if ok else None


# ----------------------------------------------------------------------------------------------
def case_slices(case, res):
    cls, L = case["cls"], case["L"]
    z = factory.make_encoded(cls, L, nchan=3, rate_name=case["rate"], start_name=case["start"])
    base = Base(z)
    led0 = Ledger(0, 1, L, 0, True)
    check_state(res, base, z, led0, case, {"op": "identity"}, "construct")
    check_contains(res, z, case, {"op": "identity"}, "contains")
    bounds = [None] + list(range(-L - 2, L + 3))
    contains_budget = 0
    for a, b, st in itertools.product(bounds, bounds, case["steps"]):
        r = step_op(res, base, z, led0, ["slice", a, b, st], case, [], "slice")
        res.traces += 1
        if r is None:
            continue
        out, led = r
        res.state((cls, case["rate"], case["start"], L, led.key(), _bits(out)))
        res.outcome((led.offset, led.step, led.length))
        # contains on a spread of distinct slices
        if contains_budget < 6 and st in (None, 2, 3) and a in (None, 1, -2) and b in (None, L - 1, L + 2):
            check_contains(res, out, case, {"slice": [a, b, st]}, "contains")
            contains_budget += 1
    res.sample({"cls": cls, "L": L, "rate": case["rate"], "start": case["start"], "op": "z[-3:7:2]"}, 1)
    if case["start"] == "none":
        res.hits["no start time"] += 1


def _bits(out):
    if out.start_time is None:
        return None
    return (float(out.start_time.jd1).hex(), float(out.start_time.jd2).hex())


def case_crops(case, res):
    cls = case["cls"]
    for L in case["lengths"]:
        z = factory.make_encoded(cls, L, nchan=3, rate_name=case["rate"], start_name=case["start"])
        base = Base(z)
        led0 = Ledger(0, 1, L, 0, True)
        ops = [["fast_len"]]
        for s in [1, -1, 0.5, -0.5, 1.5, -1.5, L, -L, L + 2, -(L + 2), L - 1, -(L - 1), 0, 2.25]:
            ops.append(["tshift", s])
        ops += [["tshift", [0.5, -2]], ["tshift", [-1.5, 1, 3]], ["tshift", [1, 2.5]], ["tshift", [-1, -0.25]],
                ["tshift", [L + 1, -1]]]
        for t in range(0, L + 1):
            for n in range(0, L - t + 1):
                ops.append(["snippet", t, n])
        for op in ops:
            r = step_op(res, base, z, led0, op, case, [], "crop")
            res.traces += 1
            if r is not None:
                out, led = r
                res.state((cls, case["rate"], case["start"], L, tuple(map(str, op)), led.key()))
                res.outcome((led.offset, led.step, led.length))
    res.sample({"cls": cls, "rate": case["rate"], "start": case["start"], "op": ["tshift", [0.5, -2]]}, 1)


def case_dedisp(case, res):
    cls = case["cls"]
    for L in (8, 12):
        srq = factory.rate(case["rate"])
        for align in ("center", "bottom"):
            for nchan in (1, 2, 3):
                z = factory.make_encoded(cls, L, nchan=nchan, rate_name=case["rate"], start_name=case["start"],
                                         fc=400 * srq, align=align)
                base = Base(z)
                led0 = Ledger(0, 1, L, 0, True)
                for sweep in (0.4, 2.3, -2.3, 5.6, L - 0.5, -(L - 0.5), L + 2.3, -(L + 2.3), 3 * L + 0.7):
                    for ref in ("center", "top", "bottom", "above", "label0"):
                        r = step_op(res, base, z, led0, ["coh", sweep, ref], case, [], "crop")
                        res.traces += 1
                        if r is not None:
                            res.state((cls, case["rate"], case["start"], L, align, nchan, sweep, ref, r[1].key()))
                            res.outcome((r[1].offset, r[1].length))
                for sweep in (0.0, 2.3, -2.3, 5.6, -7.7):
                    for ref in ("label0", "label1", "label2"):
                        r = step_op(res, base, z, led0, ["incoh", sweep, ref], case, [], "crop")
                        res.traces += 1
                        if r is not None:
                            res.state((cls, case["rate"], case["start"], L, align, nchan, "incoh", sweep, ref, r[1].key()))
    res.sample({"cls": cls, "rate": case["rate"], "op": ["coh", 2.3, "top"], "L": 12}, 1)


PIPE_OPS = [
    ["slice", 1, None, None], ["slice", None, -1, None], ["slice", 2, -1, None], ["slice", None, None, 2],
    ["slice", 1, None, 3], ["slice", 5, 5, None], ["slice", -4, None, None], ["slice", -30, 40, 1],
    ["fast_len"], ["tshift", 1.5], ["tshift", -1], ["tshift", [0.5, -2]], ["snippet", 1, "rest-1"],
    ["coh", 2.3, "center"], ["coh", -1.4, "top"], ["incoh", 2.3, "label1"],
]


def case_bfs(case, res):
    cls, L, depth = case["cls"], case["L"], case["depth"]
    srq = factory.rate(case["rate"])
    z = factory.make_encoded(cls, L, nchan=3, rate_name=case["rate"], start_name=case["start"], fc=400 * srq)
    base = Base(z)
    led0 = Ledger(0, 1, L, 0, True)
    seen = {(led0.key(), _bits(z))}
    frontier = [([], z, led0)]
    n_paths = 0
    for d in range(depth):
        nxt = []
        for path, cur, led in frontier:
            for op in PIPE_OPS:
                r = step_op(res, base, cur, led, op, case, path)
                n_paths += 1
                if r is None:
                    continue
                out, nl = r
                key = (nl.key(), _bits(out), hz(out.sample_rate))
                res.outcome((nl.offset, nl.step, nl.length))
                if key in seen:
                    res.hits["bfs: state reached again by another path"] += 1
                    continue
                seen.add(key)
                res.state((cls, case["rate"], case["start"], key))
                if nl.length > 0:
                    nxt.append((path + [op], out, nl))
                if d == depth - 1 or len(seen) % 37 == 0:
                    pass
        frontier = nxt
        res.traces += len(nxt)
    # contains on the deepest frontier (non-initial states)
    for path, cur, led in frontier[:: max(1, len(frontier) // 12)]:
        check_contains(res, cur, case, {"path": path}, "contains")
    res.info["bfs_paths_%s_%s" % (cls, case["rate"])] = n_paths
    res.traces += n_paths
    res.hits["bfs depth reached"] += 1
    res.sample({"bfs": [cls, case["rate"], case["start"]], "example_path": frontier[-1][0] if frontier else None,
                "states": len(seen)}, 1)


def case_setters(case, res):
    """Assignment histories on ONE object: derived time quantities must follow the object's CURRENT sample_rate/start_time."""
    cls = case["cls"]
    L = 9
    z = factory.make_encoded(cls, L, nchan=3, rate_name=case["rate"], start_name=case["start"])
    rates = [factory.rate(r) for r in ("1Hz", "3kHz", "third_MHz", "800MHz")]
    starts = [factory.start("iso"), factory.start("halfday_plus"), None]
    ops = [("read", None)] + [("rate", r) for r in rates[:3]] + [("start", t) for t in starts] + [("use", None)]
    for seq in itertools.product(range(len(ops)), repeat=3):
        obj = type(z).like(z)
        names = []
        try:
            for i in seq:
                kind, arg = ops[i]
                names.append(kind if arg is None else f"{kind}={arg!r}"[:40])
                if kind == "read":
                    _ = (obj.dt, obj.time_length, obj.stop_time)
                elif kind == "rate":
                    obj.sample_rate = arg
                elif kind == "start":
                    obj.start_time = arg
                elif kind == "use":
                    _ = obj[2::2]
                    if obj.dtype.kind in "fc":
                        _ = pb.snippet(obj, 1.5, 3)
                res.transitions += 1
            # the object as it is now is a new "base": everything derived must agree with it
            base = Base(obj)
            led = Ledger(0, 1, L, 1, True)
            ok = check_state(res, base, obj, led, case, {"history": names}, "assignment history")
            if ok:
                for op in (["slice", 2, None, 2], ["slice", -4, None, None], ["fast_len"]):
                    step_op(res, base, obj, led, op, case, names, "assignment history")
                if obj.dtype.kind in "fc":
                    out = pb.snippet(obj, 2.5, 4)
                    res.transitions += 1
                    if base.T0 is not None:
                        d = T(out.start_time) - base.T0 - F(5, 2) / base.sr / 86400
                        if abs(d) > 6 * ULP_T + F(1, 10 ** 6) / base.sr / 86400:
                            res.violation("assignment history|snippet start_time", f"after {names}: snippet(z, 2.5, 4) starts "
                                          f"{float((T(out.start_time) - base.T0) * 86400 * base.sr):.6g} samples after z.start_time", case,
                                          {"history": names})
                check_contains(res, obj, case, {"history": names}, "assignment history contains")
        except Exception as e:
            res.violation("assignment history|raised", f"{names}: {type(e).__name__}: {e}", case, {"history": names})
        res.traces += 1
        res.state((cls, case["rate"], case["start"], "set", seq))
    res.hits["assignment histories"] += 1
    res.sample({"cls": cls, "assignment history": ["read", "rate=3 kHz", "use"]}, 1)


def case_leap(case, res):
    """Signals that run through the leap second at the end of 2016 (a UTC day of 86 401 s): elapsed time is what counts, so the
    oracle is astropy's own Time difference (taken through TAI); and a frequency subscript next to a stepped time slice."""
    cls = case["cls"]
    for rate_name, t0 in (("1Hz", "2016-12-31T23:59:50.25"), ("1kHz", "2016-12-31T23:59:59.9985"), ("3Hz", "2016-12-31T12:00:00")):
        L = 40
        z = factory.make_encoded(cls, L, nchan=2, rate_name=rate_name, start_name="none")
        z = type(z).like(z, start_time=Time(t0, format="isot", scale="utc", precision=9))
        srv = z.sample_rate.to_value(u.Hz)
        tol = 1e-9 + 2e-11 * 86400
        def chk(out, dropped, step, n, what):
            res.transitions += 1
            res.traces += 1
            sub = {"what": what, "rate": rate_name, "t0": t0}
            if len(out) != n:
                res.violation("leap|length", f"{what}: {len(out)} samples, expected {n}", case, sub)
                return
            el = (out.start_time - z.start_time).to_value(u.s)
            if abs(el - dropped / srv) > tol:
                res.violation("leap|start_time", f"{what}: start_time is {el!r} s after the input's, dropped samples / rate = "
                              f"{dropped / srv!r} s (signal running through a leap second)", case, sub)
                return
            span = (out.stop_time - out.start_time).to_value(u.s)
            if abs(span - n * step / srv) > tol:
                res.violation("leap|stop_time", f"{what}: stop - start = {span!r} s, expected {n * step / srv!r}", case, sub)
                return
            if n:
                mid = out.start_time + ((n - 0.5) * step / srv) * u.s
                if not bool(out.contains(mid)) or bool(out.contains(out.start_time + ((n + 0.5) * step / srv) * u.s)):
                    res.violation("leap|contains", f"{what}: membership disagrees with [start, stop)", case, sub)
                    return
            res.hits["signal running through a leap second"] += 1
        for a in (1, 5, 12, 30):
            for st in (1, 2, 3):
                out = z[a::st]
                chk(out, a, st, len(range(a, L, st)), f"z[{a}::{st}]")
                if cls != "Signal":
                    # a channel subscript next to the stepped time slice must not change the time labels
                    for fs, nm in ((slice(None), ":"), (slice(0, 1), "0:1")):
                        o2 = z[a::st, fs]
                        chk(o2, a, st, len(range(a, L, st)), f"z[{a}::{st}, {nm}]")
                        if abs(hz(o2.sample_rate) - hz(out.sample_rate)) > 0:
                            res.violation("leap|time+freq subscript sample_rate", f"z[{a}::{st}, {nm}].sample_rate = {o2.sample_rate!r}, "
                                          f"z[{a}::{st}].sample_rate = {out.sample_rate!r}", case, {"a": a, "step": st})
        chk(pb.fast_len(z[7:]), 7, 1, 32, "fast_len(z[7:])")
        chk(z[3:][4:][::2][1:], 9, 2, len(range(9, L, 2)), "z[3:][4:][::2][1:]")
        if np.asarray(z.data).dtype.kind in "fc":
            chk(pb.time_shift(z, 12.0, crop=True), 12, 1, L - 12, "time_shift(z, 12, crop=True)")
            chk(pb.snippet(z, 11, 20), 11, 1, 20, "snippet(z, 11, 20)")
    res.sample({"cls": cls, "leap": "2016-12-31"}, 1)


def check_case(case):
    res = report.Result()
    {"leap": case_leap, "slices": case_slices, "setters": case_setters, "crops": case_crops, "dedisp": case_dedisp, "bfs": case_bfs}[case["kind"]](case, res)
    return res


def main(argv=None):
    return report.run_check(
        PID, gen_cases=gen_cases, check_case=check_case, describe=describe,
        required_hits=["negative start bound", "out-of-range bound clamped", "stepped slice", "empty result",
                       "no start time", "contains inside", "contains outside", "contains probe on another time scale", "shift crop exceeds length",
                       "mixed-sign shift crop", "block shorter than sweep", "incoherent traced",
                       "incoherent front crop", "bfs: state reached again by another path", "assignment histories",
                       "signal running through a leap second"],
        assumptions=["astropy Time two-double (jd1, jd2) is the representation of absolute time; budget 2 ulp_T (2^-52 day) "
                     "per operation plus 8*2^-53 relative on the elapsed offset",
                     "FFT-based crops are checked here for their ledger only (values in C03/C05)",
                     "negative slice steps are outside the property"],
        argv=argv, chunksize=1)


if __name__ == "__main__":
    sys.exit(main())
