"""Process pool over independent sub-spaces (deterministic partitioning, fork start)."""
import multiprocessing as mp
import os
import traceback


class Crash:
    def __init__(self, case, tb):
        self.case = case
        self.tb = tb


_FN = None


def _call(case):
    try:
        return _FN(case)
    except BaseException:  # harness bug or unexpected library crash outside an oracle
        return Crash(case, traceback.format_exc()[-3000:])


def pmap(fn, cases, jobs=0, chunksize=None):
    """Yield fn(case) for every case (unordered).  jobs=0 -> all cores."""
    global _FN
    _FN = fn
    cases = list(cases)
    # cases that must not run inside a (daemonic) pool worker, e.g. because they start process pools themselves
    inline = [c for c in cases if isinstance(c, dict) and c.get("_inline")]
    cases = [c for c in cases if not (isinstance(c, dict) and c.get("_inline"))]
    for c in inline:
        yield _call(c)
    if not cases:
        return
    if jobs <= 0:
        jobs = min(os.cpu_count() or 1, 16)
    jobs = max(1, min(jobs, len(cases)))
    if jobs == 1:
        for c in cases:
            yield _call(c)
        return
    ctx = mp.get_context("fork")
    if chunksize is None:
        chunksize = max(1, len(cases) // (jobs * 8))
    with ctx.Pool(jobs) as pool:
        for r in pool.imap_unordered(_call, cases, chunksize=chunksize):
            yield r
