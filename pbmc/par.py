"""Process pool over independent sub-spaces (deterministic partitioning, fork start)."""
import multiprocessing as mp
import os
import traceback


class Crash:
    def __init__(self, case, tb, lib_frame=None, exc=""):
        self.case = case
        self.tb = tb
        self.lib_frame = lib_frame      # "file:function:ExceptionType" when the exception was raised inside the library under test
        self.exc = exc


_FN = None


def _rearm_warnings():
    """Free-running threads inside a case can leave the (thread-unsafe) warnings filters at "error" for the rest of the
    worker's life; every case starts from "ignore everything" (the checks are run with -W ignore)."""
    import warnings
    warnings.resetwarnings()
    warnings.simplefilter("ignore")


def _call(case, _retry=True):
    try:
        from . import factory
        _rearm_warnings()
        factory.new_case(case)
        return _FN(case)
    except BaseException as e:
        if isinstance(e, Warning) and _retry:
            # a warning escalated to an exception: an artefact of corrupted filters, never a property of the library
            return _call(case, _retry=False)  # harness bug, or an exception raised by the library in a call the check expected to succeed
        from . import REPO, VERIF
        # Walk the traceback: the exception is attributed to the library when the deepest frame that belongs to the
        # check's own code (/verif) *called into* pulsarbat, i.e. the library (or something it called) raised inside a
        # call the check expected to succeed.  An exception raised by the check's own code stays a harness error.
        frames = []
        tb = e.__traceback__
        while tb is not None:
            frames.append(tb.tb_frame.f_code)
            tb = tb.tb_next
        libroot = os.path.realpath(REPO) + os.sep + "pulsarbat"
        vroot = os.path.realpath(VERIF) + os.sep
        last_verif = max((i for i, c in enumerate(frames) if os.path.realpath(c.co_filename).startswith(vroot)), default=-1)
        lib = None
        for c in frames[last_verif + 1:]:
            if os.path.realpath(c.co_filename).startswith(libroot):
                lib = f"{os.path.basename(c.co_filename)}:{c.co_name}:{type(e).__name__}"
        if frames[last_verif + 1:] and not os.path.realpath(frames[last_verif + 1].co_filename).startswith(libroot):
            lib = None          # the check called something else (numpy, astropy) directly: not attributable to pulsarbat
        return Crash(case, traceback.format_exc()[-3000:], lib, f"{type(e).__name__}: {e}"[:500])


def pmap(fn, cases, jobs=0, chunksize=None):
    """Yield fn(case) for every case (unordered).  jobs=0 -> all cores."""
    global _FN
    _FN = fn
    cases = list(cases)
    # cases that must not run inside a (daemonic) pool worker, e.g. because they start process pools themselves
    inline = [c for c in cases if isinstance(c, dict) and c.get("_inline")]
    cases = [c for c in cases if not (isinstance(c, dict) and c.get("_inline"))]
    for c in inline:
        yield _call(c)
    if not cases:
        return
    if jobs <= 0:
        jobs = min(os.cpu_count() or 1, 16)
    jobs = max(1, min(jobs, len(cases)))
    if jobs == 1:
        for c in cases:
            yield _call(c)
        return
    ctx = mp.get_context("fork")
    if chunksize is None:
        chunksize = max(1, len(cases) // (jobs * 8))
    with ctx.Pool(jobs) as pool:
        for r in pool.imap_unordered(_call, cases, chunksize=chunksize):
            yield r
