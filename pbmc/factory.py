"""Signal factory: class x shape x dtype x rate x start time x alignment.

Payloads encode (time index, flat element index) exactly, so a retained sample can be
traced back to the input sample it was taken from with bit-exact comparison.
"""
import numpy as np
import astropy.units as u
from astropy.time import Time

from . import bind_repo

pb = bind_repo()

CLASSES = ["Signal", "RadioSignal", "IntensitySignal", "FullStokesSignal",
           "BasebandSignal", "DualPolarizationSignal"]
RADIO = CLASSES[1:]

# sample rates from mHz to GHz, each in its own unit (value, unit-name)
RATES = {
    "1mHz": (1.0, "mHz"),
    "third_Hz": (1 / 3, "Hz"),
    "1Hz": (1.0, "Hz"),
    "1kHz": (1.0, "kHz"),
    "3kHz": (3.0, "kHz"),
    "1MHz": (1.0, "MHz"),
    "third_MHz": (1 / 3, "MHz"),
    "800MHz": (800.0, "MHz"),
    "1GHz": (1.0, "GHz"),
    "3.7GHz": (3.7, "GHz"),
    "8Hz": (8.0, "Hz"),
    "3Hz": (3.0, "Hz"),
    # single-precision VALUES (a Quantity built from a float32 header field); the rate itself is exactly that float32 number
    "third_Hz_f32": (np.float32(1 / 3), "Hz"),
    "3.7GHz_f32": (np.float32(3.7), "GHz"),
}

STARTS = {
    "none": None,
    "iso": ("isot", "2021-01-01T00:00:00.123456789"),
    "halfday_minus": ("jd", 2459581.0, 0.5 - 1e-9),     # jd2 within 1e-9 of +1/2 day
    "halfday_plus": ("jd", 2459581.0, -0.5 + 3e-10),    # jd2 within 1e-9 of -1/2 day
    "mjd_int": ("jd", 2459000.5, 0.0),
    "tai": ("tai_mjd", 59000.0, 0.7123456789),          # a start time kept on the TAI scale, MJD format
    "unix_loc": ("unix", 1600000000.0, 0.123456789),    # unix format, with an observatory location attached
}


def rate(name):
    v, un = RATES[name]
    return v * u.Unit(un)


def start(name):
    s = STARTS[name]
    if s is None:
        return None
    if s[0] == "isot":
        return Time(s[1], format="isot", scale="utc", precision=9)
    if s[0] == "unix":
        from astropy.coordinates import EarthLocation
        return Time(s[1], s[2], format="unix", scale="utc", precision=9, location=EarthLocation.from_geodetic(-79.8 * u.deg, 38.4 * u.deg))
    if s[0] == "tai_mjd":
        return Time(s[1], s[2], format="mjd", scale="tai", precision=9)
    return Time(s[1], s[2], format="jd", scale="utc", precision=9)


def sample_shape(cls, nchan=2, extra=()):
    if cls == "Signal":
        return tuple(extra)
    if cls in ("RadioSignal", "IntensitySignal", "BasebandSignal"):
        return (nchan,) + tuple(extra)
    if cls == "FullStokesSignal":
        return (nchan, 4) + tuple(extra)
    if cls == "DualPolarizationSignal":
        return (nchan, 2) + tuple(extra)
    raise KeyError(cls)


def default_dtype(cls):
    if cls in ("BasebandSignal", "DualPolarizationSignal"):
        return np.complex128
    return np.float64


def payload(L, sshape, dtype=np.float64, t_offset=0):
    """x[t, e] = (t + t_offset) * 1024 + flat_index(e) (+ i * (that + 0.5) if complex)."""
    ne = int(np.prod(sshape)) if len(sshape) else 1
    t = (np.arange(L) + t_offset).reshape((L,) + (1,) * len(sshape))
    e = np.arange(ne).reshape((1,) + tuple(sshape))
    x = (t * 1024 + e).astype(np.float64)
    dtype = np.dtype(dtype)
    if dtype.kind == "c":
        x = x - 1j * (x + 0.5)
    return x.astype(dtype)


def decode_time(v):
    """time index of a payload value."""
    return int(np.floor(np.real(v) / 1024))


# Memory layout of the array handed to the constructor rotates per call within a case (values are identical; a
# result must not depend on it): C order, Fortran order, a strided view of a larger buffer.  The counter is reset
# at the start of every case so that a replayed case sees the same layouts.
_LAYOUT = [0]
LAYOUTS_ENABLED = True


def new_case(case=None):
    """Reset the rotation counters; their starting points depend (deterministically) on the case itself, so that also the
    FIRST object built in a case meets every layout / provenance across the cases of a check."""
    import json
    import zlib
    h = zlib.crc32(json.dumps(case, sort_keys=True, default=str).encode()) if case is not None else 0
    _LAYOUT[0] = h % 3
    _PROV[0] = (h // 3) % 4


def _layout(data):
    if not LAYOUTS_ENABLED or type(data) is not np.ndarray or data.ndim < 1 or data.dtype.hasobject:
        return data
    k = _LAYOUT[0] % 3
    _LAYOUT[0] += 1
    if k == 1:
        return np.asfortranarray(data)
    if k == 2:
        buf = np.zeros((2 * data.shape[0] + 1,) + data.shape[1:], dtype=data.dtype)
        view = buf[1::2]
        view[...] = data
        return view
    return data


# Provenance of the object handed to a check rotates as well: as constructed, after a pickle round trip, after
# copy.deepcopy, after like().  All four must be indistinguishable to every operation.
PROVENANCE_ENABLED = True
_PROV = [0]


def _provenance(z):
    if not PROVENANCE_ENABLED:
        return z
    k = _PROV[0] % 4
    _PROV[0] += 1
    if k == 1:
        import pickle
        return pickle.loads(pickle.dumps(z))
    if k == 2:
        import copy
        return copy.deepcopy(z)
    if k == 3:
        return type(z).like(z)
    return z


def make(cls, data, *, rate_name="1Hz", start_name="none", fc=400 * u.MHz, chan_bw=None,
         align="center", pol_type="linear", meta=None, sample_rate=None, start_time="use_name"):
    sr = rate(rate_name) if sample_rate is None else sample_rate
    st = start(start_name) if isinstance(start_time, str) else start_time
    C = getattr(pb, cls)
    kw = dict(sample_rate=sr, start_time=st, meta=meta)
    # strings built at run time (not interned literals): equality, not identity, must decide
    align = "".join(list(align)) if isinstance(align, str) else align
    pol_type = "".join(list(pol_type)) if isinstance(pol_type, str) else pol_type
    if cls != "Signal":
        kw.update(center_freq=fc, freq_align=align)
    if cls in ("RadioSignal", "IntensitySignal", "FullStokesSignal"):
        kw["chan_bw"] = sr if chan_bw is None else chan_bw
    if cls == "DualPolarizationSignal":
        kw["pol_type"] = pol_type
    return _provenance(C(_layout(data), **kw))


def make_encoded(cls, L, *, nchan=2, extra=(), dtype=None, **kw):
    ss = sample_shape(cls, nchan, extra)
    dt = default_dtype(cls) if dtype is None else dtype
    return make(cls, payload(L, ss, dt), **kw)
