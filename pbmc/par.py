"""Process pool over independent sub-spaces (deterministic partitioning, fork start)."""
import multiprocessing as mp
import os
import traceback


class Crash:
    def __init__(self, case, tb, lib_frame=None, exc=""):
        self.case = case
        self.tb = tb
        self.lib_frame = lib_frame      # "file:function:ExceptionType" when the exception was raised inside the library under test
        self.exc = exc


_FN = None


def _call(case):
    try:
        return _FN(case)
    except BaseException as e:  # harness bug, or an exception raised by the library in a call the check expected to succeed
        import sys
        from . import REPO
        tb = e.__traceback__
        last = None
        while tb is not None:
            last = tb
            tb = tb.tb_next
        lib = None
        if last is not None:
            fn = last.tb_frame.f_code.co_filename
            if os.path.realpath(fn).startswith(os.path.realpath(REPO) + os.sep + "pulsarbat"):
                lib = f"{os.path.basename(fn)}:{last.tb_frame.f_code.co_name}:{type(e).__name__}"
        return Crash(case, traceback.format_exc()[-3000:], lib, f"{type(e).__name__}: {e}"[:500])


def pmap(fn, cases, jobs=0, chunksize=None):
    """Yield fn(case) for every case (unordered).  jobs=0 -> all cores."""
    global _FN
    _FN = fn
    cases = list(cases)
    # cases that must not run inside a (daemonic) pool worker, e.g. because they start process pools themselves
    inline = [c for c in cases if isinstance(c, dict) and c.get("_inline")]
    cases = [c for c in cases if not (isinstance(c, dict) and c.get("_inline"))]
    for c in inline:
        yield _call(c)
    if not cases:
        return
    if jobs <= 0:
        jobs = min(os.cpu_count() or 1, 16)
    jobs = max(1, min(jobs, len(cases)))
    if jobs == 1:
        for c in cases:
            yield _call(c)
        return
    ctx = mp.get_context("fork")
    if chunksize is None:
        chunksize = max(1, len(cases) // (jobs * 8))
    with ctx.Pool(jobs) as pool:
        for r in pool.imap_unordered(_call, cases, chunksize=chunksize):
            yield r
