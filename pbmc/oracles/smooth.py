"""Independent reference for C18: the sorted list of all 7-smooth integers below a limit."""
import bisect
import functools


@functools.lru_cache(maxsize=4)
def smooth_list(limit=2 ** 64):
    out = []
    p2 = 1
    while p2 < limit:
        p3 = p2
        while p3 < limit:
            p5 = p3
            while p5 < limit:
                p7 = p5
                while p7 < limit:
                    out.append(p7)
                    p7 *= 7
                p5 *= 5
            p3 *= 3
        p2 *= 2
    out.sort()
    return out


def ref_next(n, lst=None):
    """smallest 7-smooth >= n (0 -> 0)."""
    if n <= 0:
        return 0
    lst = lst or smooth_list()
    return lst[bisect.bisect_left(lst, n)]


def ref_prev(n, lst=None):
    """largest 7-smooth <= n (0 -> 0)."""
    if n <= 0:
        return 0
    lst = lst or smooth_list()
    return lst[bisect.bisect_right(lst, n) - 1]


def is_smooth_trial(n):
    if n < 1:
        return False
    for p in (2, 3, 5, 7):
        while n % p == 0:
            n //= p
    return n == 1


def selftest():
    lst = smooth_list()
    assert lst == sorted(set(lst)) and lst[0] == 1
    small = [n for n in range(1, 20000) if is_smooth_trial(n)]
    assert small == [x for x in lst if x < 20000]
    for x in lst[::97]:
        assert is_smooth_trial(x)
    assert ref_next(11) == 12 and ref_prev(11) == 10 and ref_next(0) == 0 and ref_prev(0) == 0
    return len(lst)
