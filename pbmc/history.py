"""Shared history oracles (differential: the state reached through a history vs a freshly built object).

reuse_buffer: call an operation, overwrite the signal's buffer in place (the caller's right), call it again; the second
answer must be bit-identical to the answer for a freshly built signal holding the new contents.  Catches memo tables
keyed on object / buffer identity, cached spectra, and results that alias internal state.
"""
import numpy as np


def _arrays(out):
    outs = out if isinstance(out, (tuple, list)) else (out,)
    return [np.asarray(getattr(o, "data", o)) for o in outs]


def reuse_buffer(res, case, z, calls, site):
    for name, fn in calls:
        try:
            zs = type(z).like(z, np.array(np.asarray(z.data)))
            buf = np.asarray(zs.data)
            first = _arrays(fn(zs))
            # a result that legitimately shares memory with the input (identity conversions, views) follows the input
            first = [a for a in first if not np.shares_memory(a, buf)]
            keep_first = [np.array(a) for a in first]
            buf[...] = np.array(buf[::-1]) * 2 + 1
            again = [np.array(a) for a in _arrays(fn(zs))]
            fresh = _arrays(fn(type(z).like(z, np.array(buf))))
            # and once more through a NEW signal object wrapped around the same, re-filled buffer
            buf[...] = np.roll(np.array(buf), 1, axis=0) - 3
            z2 = type(z).like(z, buf)
            again2 = [np.array(a) for a in _arrays(fn(z2))]
            fresh2 = _arrays(fn(type(z).like(z, np.array(buf))))
        except Exception as e:
            res.violation(f"{site}|{name}|history raised", f"{type(e).__name__}: {e}", case, {"op": name})
            continue
        res.transitions += 5
        res.traces += 1
        bad = None
        for tag, a_, f_ in (("same object", again, fresh), ("new object around the same buffer", again2, fresh2)):
            if len(a_) != len(f_) or any(x.shape != y.shape or not np.array_equal(x, y, equal_nan=True) for x, y in zip(a_, f_)):
                bad = tag
                break
        if bad:
            res.violation(f"{site}|{name}|answers from stale contents", f"{name}: after the signal's buffer was overwritten in place ({bad}) "
                          f"the result differs from that of a freshly built signal with the same contents", case, {"op": name})
            continue
        if any(not np.array_equal(x, y, equal_nan=True) for x, y in zip(first, keep_first)):
            res.violation(f"{site}|{name}|earlier result changed", f"{name}: a result returned earlier changed when the operation was "
                          f"called again", case, {"op": name})
            continue
        res.hits["buffer overwritten between calls"] += 1
