"""Result accumulation, evidence files, VIOLATION / KNOWN-FINDING protocol, replay."""
import argparse
import collections
import hashlib
import json
import os
import sys
import time
import traceback

from . import VERIF

MAX_VIOLATION_LINES = 25
MAX_VIOL_PER_CASE = 40


def jsonable(x):
    """Best-effort conversion of a case description to JSON-able data."""
    import fractions

    try:
        import numpy as np
    except Exception:  # pragma: no cover
        np = None
    if isinstance(x, dict):
        return {str(k): jsonable(v) for k, v in x.items()}
    if isinstance(x, (list, tuple, set, frozenset)):
        return [jsonable(v) for v in x]
    if isinstance(x, (str, int, bool)) or x is None:
        return x
    if isinstance(x, float):
        return x if x == x and abs(x) != float("inf") else repr(x)
    if isinstance(x, fractions.Fraction):
        return str(x)
    if isinstance(x, complex):
        return repr(x)
    if np is not None:
        if isinstance(x, np.generic):
            return jsonable(x.item())
        if isinstance(x, np.ndarray):
            return jsonable(x.tolist())
    return repr(x)


class Result:
    """What one case (or a merge of cases) covered.  Picklable."""

    def __init__(self):
        self.transitions = 0      # real operation applications / scheduling steps
        self.traces = 0           # complete executions on the real code
        self.states = set()       # hashes of canonical states
        self.outcomes = set()     # hashes / labels of distinct observed outcomes
        self.violations = []      # dicts: site, msg, case, sub
        self.n_violations = 0
        self.skipped = collections.Counter()   # unconstrained-by-design cases, by reason
        self.hits = collections.Counter()      # shortcut / branch counters (vacuity guard)
        self.worst = {}           # budget name -> worst observed/budget ratio
        self.samples = []
        self.info = {}            # free-form (last writer wins)
        self.capped = False

    # -- recording -----------------------------------------------------
    def state(self, key):
        self.states.add(key if isinstance(key, int) else hash(key))

    def outcome(self, key):
        self.outcomes.add(key if isinstance(key, (int, str)) else hash(key))

    def ratio(self, name, value, budget):
        """Record value/budget; returns True if within budget."""
        if budget <= 0:
            r = 0.0 if value == 0 else float("inf")
        else:
            r = float(value) / float(budget)
        if r != r:
            r = float("inf")
        if r > self.worst.get(name, 0.0):
            self.worst[name] = r
        return r <= 1.0

    def violation(self, site, msg, case=None, sub=None):
        self.n_violations += 1
        if len(self.violations) < MAX_VIOL_PER_CASE or all(
            v["site"] != site for v in self.violations
        ):
            self.violations.append(
                {"site": site, "msg": str(msg)[:2000], "case": jsonable(case), "sub": jsonable(sub)}
            )

    def sample(self, s, limit=3):
        if len(self.samples) < limit:
            self.samples.append(jsonable(s))

    def merge(self, other):
        self.transitions += other.transitions
        self.traces += other.traces
        self.states |= other.states
        self.outcomes |= other.outcomes
        self.n_violations += other.n_violations
        have = collections.Counter(v["site"] for v in self.violations)
        for v in other.violations:
            if have[v["site"]] < 3:
                self.violations.append(v)
                have[v["site"]] += 1
        self.skipped.update(other.skipped)
        self.hits.update(other.hits)
        for k, v in other.worst.items():
            if v > self.worst.get(k, 0.0):
                self.worst[k] = v
        for s in other.samples:
            if len(self.samples) < 12:
                self.samples.append(s)
        self.info.update(other.info)
        self.capped |= other.capped
        return self


def load_known(prop_id):
    path = os.path.join(VERIF, "known_findings.jsonl")
    known, fixed = {}, {}
    if os.path.exists(path):
        with open(path) as f:
            for line in f:
                line = line.strip()
                if not line or line.startswith("#"):
                    continue
                e = json.loads(line)
                if e.get("property") != prop_id:
                    continue
                (known if e["status"] == "known" else fixed)[e["site"]] = e
    return known, fixed


def parse_args(argv=None):
    ap = argparse.ArgumentParser()
    ap.add_argument("--tier", default=os.environ.get("VERIF_TIER", "quick"),
                    choices=["quick", "thorough"])
    ap.add_argument("--replay", default=None)
    ap.add_argument("--jobs", type=int, default=int(os.environ.get("VERIF_JOBS", "0")))
    ap.add_argument("--only", default=None, help="substring filter on case json (debug)")
    ap.add_argument("--no-evidence", action="store_true")
    return ap.parse_args(argv)


def run_check(prop_id, *, gen_cases, check_case, describe, required_hits=(),
              assumptions=(), finalize=None, argv=None, chunksize=None):
    """Generic driver shared by every checks/cNN.py.

    gen_cases(tier, seed) -> iterable of JSON-able case dicts (the finite space,
    simplest first).  check_case(case) -> Result.  describe(tier) -> dict with
    'bounds', 'alphabet', 'rule' for the evidence file.
    """
    from . import par

    args = parse_args(argv)
    seed = int(os.environ.get("VERIF_SEED", "0") or 0)
    t0 = time.time()

    if args.replay:
        return _replay(prop_id, args.replay, check_case)

    cases = list(gen_cases(args.tier, seed))
    if args.only:
        cases = [c for c in cases if args.only in json.dumps(jsonable(c))]
    n_cases = len(cases)
    # seed only rotates the visiting order of the (complete) case list
    if n_cases:
        k = seed % n_cases
        order = cases[k:] + cases[:k]
    else:
        order = cases
    total = Result()
    errors = []
    for res in par.pmap(check_case, order, jobs=args.jobs, chunksize=chunksize):
        if isinstance(res, par.Crash):
            if res.lib_frame:
                # the library itself raised inside a call the check expected to succeed: a behavioural deviation, not a harness bug
                r = Result()
                r.traces += 1
                r.violation(f"unexpected exception from the library|{res.lib_frame}", f"{res.exc} (raised in {res.lib_frame.split(':')[0]} "
                            f"during a call this check expects to succeed)\n{res.tb[-800:]}", res.case, None)
                total.merge(r)
            else:
                errors.append(res)
        else:
            total.merge(res)
    if finalize is not None:
        finalize(total, args.tier)

    wall = time.time() - t0
    known, fixed = load_known(prop_id)
    by_site = collections.OrderedDict()
    for v in total.violations:
        by_site.setdefault(v["site"], []).append(v)

    new_sites = [s for s in by_site if s not in known]
    known_hit = [s for s in by_site if s in known]

    desc = describe(args.tier)
    missing_hits = [h for h in required_hits if total.hits.get(h, 0) == 0]

    print(f"[{prop_id}] tier={args.tier} seed={seed} cases={n_cases} states={len(total.states)} "
          f"transitions={total.transitions} traces={total.traces} "
          f"distinct_outcomes={len(total.outcomes)} wall={wall:.1f}s")
    if total.worst:
        print(f"[{prop_id}] worst observed/budget: " +
              ", ".join(f"{k}={v:.3g}" for k, v in sorted(total.worst.items())))
    if total.skipped:
        print(f"[{prop_id}] unconstrained (skipped by design): " +
              ", ".join(f"{k}={v}" for k, v in sorted(total.skipped.items(), key=lambda kv: str(kv[0]))))
    if total.hits:
        print(f"[{prop_id}] shortcut hits: " +
              ", ".join(f"{k}={v}" for k, v in sorted(total.hits.items(), key=lambda kv: str(kv[0]))))

    for s in known_hit:
        print(f"KNOWN-FINDING: property={prop_id} {known[s].get('what', s)} [site={s}; "
              f"{len(by_site[s])}+ case(s) e.g. {by_site[s][0]['msg'][:160]}]")

    vio_dir = os.path.join(VERIF, "violations")
    n_lines = 0
    for s in new_sites:
        v = by_site[s][0]
        os.makedirs(vio_dir, exist_ok=True)
        h = hashlib.sha1(s.encode()).hexdigest()[:10]
        path = os.path.join(vio_dir, f"{prop_id}-{h}.json")
        with open(path, "w") as f:
            json.dump({"property": prop_id, "site": s, "msg": v["msg"], "case": v["case"],
                       "sub": v["sub"], "tier": args.tier, "seed": seed,
                       "was_fixed_before": s in fixed}, f, indent=1)
        if n_lines < MAX_VIOLATION_LINES:
            print(f"VIOLATION property={prop_id} replay={path}")
            print(f"    site: {s}\n    {v['msg'][:600]}")
            n_lines += 1
    if len(new_sites) > n_lines:
        print(f"[{prop_id}] ... {len(new_sites) - n_lines} further distinct violation sites not printed")

    for e in errors[:5]:
        print(f"HARNESS-ERROR [{prop_id}] case={json.dumps(jsonable(e.case))[:300]}\n{e.tb}")

    if not args.no_evidence and not args.only:
        cov = {
            "states": len(total.states),
            "transitions": total.transitions,
            "traces_validated_against_impl": total.traces,
            "samples": total.samples[:8] or [jsonable(c) for c in cases[:2]],
            "exhaustive": (not total.capped) and not errors,
            "cases": n_cases,
            "evaluations": total.traces,
            "distinct_nontrivial": len(total.states),
            "distinct_outcomes": len(total.outcomes),
            "skipped_unconstrained": {str(k): v for k, v in total.skipped.items()},
            "shortcut_hits": {str(k): v for k, v in total.hits.items()},
            "worst_observed_over_budget": {k: round(v, 6) for k, v in total.worst.items()},
            "violations_total": total.n_violations,
            "violation_sites_new": new_sites[:50],
            "violation_sites_known": known_hit,
            "info": jsonable(total.info),
        }
        cov.update(jsonable(desc))
        ev = {
            "property_id": prop_id,
            "tier": args.tier,
            "seed": seed,
            "level": "model_checking",
            "coverage": cov,
            "assumptions": list(assumptions),
            "wall_s": round(wall, 2),
            "violations": len(new_sites),
        }
        os.makedirs(os.path.join(VERIF, "evidence"), exist_ok=True)
        tmp = os.path.join(VERIF, "evidence", f".{prop_id}.json.tmp")
        with open(tmp, "w") as f:
            json.dump(ev, f, indent=1)
        os.replace(tmp, os.path.join(VERIF, "evidence", f"{prop_id}.json"))

    if new_sites:
        return 1
    if errors:
        print(f"BROKEN [{prop_id}]: {len(errors)} case(s) crashed inside the harness")
        return 2
    if missing_hits:
        print(f"BROKEN [{prop_id}]: vacuous exploration, shortcut never reached: {missing_hits}")
        return 2
    if n_cases == 0 or total.traces == 0:
        print(f"BROKEN [{prop_id}]: nothing explored")
        return 2
    print(f"[{prop_id}] OK: property held on everything explored")
    return 0


def _replay(prop_id, path, check_case):
    with open(path) as f:
        rec = json.load(f)
    try:
        from . import factory
        factory.new_case(rec["case"])
        res = check_case(rec["case"])
    except Exception as e:
        traceback.print_exc()
        if rec["site"].startswith("unexpected exception from the library|") and rec["site"].endswith(type(e).__name__):
            print(f"VIOLATION property={prop_id} replay={path}")
            print(f"    site: {rec['site']}\n    {type(e).__name__}: {e}")
            return 1
        print(f"replay of {path}: harness error")
        return 2
    hit = [v for v in res.violations if v["site"] == rec["site"]]
    other = [v for v in res.violations if v["site"] != rec["site"]]
    if hit:
        print(f"VIOLATION property={prop_id} replay={path}")
        print(f"    site: {rec['site']}\n    {hit[0]['msg'][:1000]}")
        return 1
    print(f"replay of {path}: recorded violation does NOT reproduce "
          f"({len(other)} other violation(s) in the same case)")
    return 0
