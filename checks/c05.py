"""C05 -- coherent dedispersion applies the cold-plasma chirp and crops to valid times.

Enumerated: DM (both signs, many decades) x band (centre, rate) x nchan x alignment x reference (None / inside /
edges / outside / a label) x N (incl. odd and blocks shorter than the sweep) x trailing dims x complex width.
Oracle: transfer function from the exact rational phase reduced mod 1 before rounding; output on a complete
basis = long-double IDFT(DFT(x) H) restricted to the exact valid window; supplied chirp == internal;
DM then -DM restores a compactly supported input; a wave packet moves by the C06 delay (sign convention).
"""
import math
import sys
from fractions import Fraction as F

import numpy as np
import astropy.units as u

from pbmc import bind_repo, report, factory, history
from pbmc.exact import time_days as T, hz, ULP_T
from pbmc.oracles import dft, dispersion

pb = bind_repo()
PID = "C05"
EPS32 = float(np.finfo(np.float32).eps)
EPS64 = float(np.finfo(np.float64).eps)

BANDS = [(400.0, 1.0), (1400.0, 8.0), (100.0, 0.25), (327.0, 3.125)]       # (centre MHz, sample rate MHz)
DMS = [1e-4, -1e-4, 1e-2, -1e-2, 1.0, -1.0, 30.0, -30.0, 1000.0]
BOUNDS = {
    "quick": dict(Ns=[1, 2, 3, 8, 12, 13, 15, 16, 32], nchan=[1, 2, 3], dtypes=["complex64", "complex128"]),
    "thorough": dict(Ns=[1, 2, 3, 5, 7, 8, 9, 12, 13, 15, 16, 17, 23, 25, 26, 32, 34, 48], nchan=[1, 2, 3, 4], dtypes=["complex64", "complex128"]),
}
REFS = ["none", "center", "bottom", "top", "above", "below", "label", "inf"]


def describe(tier):
    b = BOUNDS[tier]
    return {
        "bounds": {"DM": DMS, "bands (fc MHz, sr MHz)": BANDS, "nchan": b["nchan"], "alignments": 3, "references": REFS,
                   "N": b["Ns"], "trailing": [[], [2]], "dtypes": b["dtypes"]},
        "alphabet": ["DM.chirp_function", "DM.chirp_from_signal", "coherent_dedispersion(z, DM, ref_freq=)",
                     "coherent_dedispersion(..., chirp=supplied)", "DM then -DM", "wave packet (group delay sign)"],
        "rule": "state = (DM, band, nchan, align, ref, N, trailing, dtype); chirp entries vs exp(-2 pi i frac(phi)) with phi = "
                "K DM f (1/f_ref - 1/f)^2 in Fractions; dedispersed complete basis vs long-double IDFT(DFT(x) H) on the exact "
                "window [ceil(-min(0,d)), N - ceil(max(0,d)))",
    }


def gen_cases(tier, seed):
    b = BOUNDS[tier]
    for bi in range(len(BANDS)):
        for nchan in b["nchan"]:
            for align in ("bottom", "center", "top"):
                for N in b["Ns"]:
                    yield {"kind": "grid", "band": bi, "nchan": nchan, "align": align, "N": N, "dtypes": b["dtypes"]}
    for bi in range(len(BANDS)):
        for sign in (1, -1):
            yield {"kind": "packet", "band": bi, "sign": sign}
            yield {"kind": "roundtrip", "band": bi, "sign": sign}


def dm_objects():
    """(label value in pc/cm3, DispersionMeasure object, exact pc/cm3 value): also DMs stored in other equivalent units."""
    for v in DMS:
        yield v, pb.DM(v), F(v)
    # the same physical DM given in pc/m^3 (exact decimal scale 1e-6) - the stored number differs, the physics must not
    for v in (1e-2, -1.0, 30.0):
        stored = v * 1e6
        q = pb.DM(stored, u.pc / u.m ** 3)
        yield v, q, F(float(stored)) / 10 ** 6


def exact_labels(z):
    sc = hz(1 * z.channel_freqs.unit)
    return [F(float(v)) * sc for v in np.atleast_1d(z.channel_freqs.value)]


def ref_of(z, kind):
    if kind == "none":
        return None
    if kind == "inf":
        return np.inf * u.MHz
    r = {"center": z.center_freq, "bottom": z.min_freq, "top": z.max_freq, "above": z.max_freq + 2 * z.chan_bw,
         "below": z.min_freq - 2 * z.chan_bw, "label": z.channel_freqs[z.nchan // 2]}[kind]
    # the same frequency in another unit (the oracle reads the exact value of whatever Quantity is passed)
    return r.to(u.GHz) if (len(z) % 2 and kind in ("top", "above", "label")) else (r.to(u.kHz) if kind == "below" else r)


def oracle_chirp(dmx, label, srx, N, refx, nyq_pos):
    """(H long-double array, |phi| array) for one channel."""
    kb = dft.signed_bins(N, nyq_pos)
    H = np.empty(N, dtype=dft.CLD)
    mag = np.empty(N)
    sens = np.empty(N)
    for j, k in enumerate(kb):
        f = label + int(k) * srx / N
        phi = dispersion.chirp_phase_cycles(dmx, f, refx)
        H[j] = dft.cis(-phi)
        mag[j] = float(abs(phi))
        sens[j] = 1.0 + (0.0 if refx is None else (float(refx / abs(f - refx)) if f != refx else 0.0))
    return H, mag, sens


def chirp_budget(mag, sens):
    return 8 * EPS32 + 2 * math.pi * mag * 32 * EPS64 * sens


def grid_case(case, res):
    fc_mhz, sr_mhz = BANDS[case["band"]]
    N, nchan, align = case["N"], case["nchan"], case["align"]
    base = factory.make("BasebandSignal", np.zeros((N, nchan), np.complex128), sample_rate=sr_mhz * u.MHz,
                        fc=fc_mhz * u.MHz, align=align, start_name="iso")
    labels = exact_labels(base)
    srx = hz(base.sample_rate)
    eye = np.eye(N)
    Xb = np.concatenate([eye, 1j * eye], axis=1).astype(dft.CLD)            # N x 2N
    W = dft.dft_matrix(N)
    Wi = dft.dft_matrix(N, +1) / dft.LD(N)
    # DMs chosen for THIS band: a band-edge delay of a few 1e-7 samples (the ceiling is still one whole sample) and of a whole
    # number of samples plus 4e-7
    span1 = dispersion.delay_samples(1, hz(base.min_freq), hz(base.max_freq), srx)
    special = []
    for target in (F(2, 10 ** 7), -F(3, 10 ** 7), 3 + F(4, 10 ** 7), -(2 + F(7, 10 ** 7))):
        v = float(target / span1)
        special.append((v, pb.DM(v), F(v)))
        res.hits["band-edge delay a few 1e-7 above a whole sample"] += 1
    for dmv, dm, dmx in list(dm_objects()) + special:
        for refkind in REFS:
            ref = ref_of(base, refkind)
            refx = hz(base.center_freq) if ref is None else (None if refkind == "inf" else hz(ref))
            sub = {"dm": dmv, "dm_unit": str(dm.unit), "ref": refkind}
            if str(dm.unit) != "pc / cm3":
                res.hits["DM stored in another unit"] += 1
            # ---- (1) chirp arrays
            variants = [False, True] if N % 2 == 0 else [False]
            orc = [[oracle_chirp(dmx, lab, srx, N, refx, v) for lab in labels] for v in variants]
            budget = np.stack([chirp_budget(o[1], o[2]) for o in orc[0]], axis=1)          # N x nchan
            loose = budget > 0.05
            if loose.all():
                res.skipped["chirp phase so large that the float64 budget exceeds 0.05 (|phi| > ~1e10 cycles)"] += 1
                continue
            try:
                ch = np.asarray(dm.chirp_from_signal(base, ref_freq=ref))
            except Exception as e:
                res.violation("chirp|raised", f"{type(e).__name__}: {e} [{sub}]", case, sub)
                continue
            res.transitions += 1
            res.state(("chirp", case["band"], nchan, align, N, dmv, str(dm.unit), refkind))
            if ch.shape != (N, nchan) or ch.dtype != np.complex64:
                res.violation("chirp|shape/dtype", f"chirp {ch.shape} {ch.dtype} [{sub}]", case, sub)
                continue
            errs = []
            for vi in range(len(variants)):
                Hs = np.stack([o[0] for o in orc[vi]], axis=1)
                errs.append(np.abs(ch.astype(dft.CLD) - Hs).astype(float))
            err = np.minimum.reduce(errs)
            ratio = np.where(loose, 0, err / budget)
            if not res.ratio("chirp err / budget", float(ratio.max()), 1.0):
                j = np.unravel_index(np.argmax(ratio), ratio.shape)
                res.violation("chirp|value", f"chirp[{j[0]}, chan {j[1]}] = {ch[j]!r}; exp(-2 pi i phi) with phi = "
                              f"{float(orc[0][j[1]][1][j[0]]):.6g} cycles gives {complex(orc[0][j[1]][0][j[0]])!r} "
                              f"(err {err[j]:.3g}, budget {budget[j]:.3g}) [{sub}]", case, sub)
                continue
            # chirp_function directly for channel 0 equals the column of chirp_from_signal
            cf = np.asarray(dm.chirp_function(N, base.dt, base.channel_freqs[0], base.center_freq if ref is None else ref))
            res.transitions += 1
            if cf.shape != (N,) or not np.array_equal(cf, ch[:, 0]):
                res.violation("chirp|chirp_function vs chirp_from_signal", f"column 0 differs [{sub}]", case, sub)
            if np.any(np.abs(np.abs(ch) - 1) > 4 * EPS32):
                res.violation("chirp|not unit modulus", f"max | |H| - 1 | = {np.max(np.abs(np.abs(ch) - 1)):.3g} [{sub}]", case, sub)
            res.hits["chirp checked"] += 1
            if float(np.max(orc[0][0][1])) > 1e3:
                res.hits["|phi| > 1000 cycles (reduction mod 1 matters)"] += 1
            # ---- (2) dedispersed basis on the exact window
            # the band that is dedispersed: every channel covers its label +- half a channel (for 'bottom' / 'top' alignment of an
            # even channel count that band is NOT center_freq +- bandwidth/2)
            start, stop, unc, (dtop, dbot) = dispersion.coherent_crop(dmx, labels[0] - srx / 2, labels[-1] + srx / 2, refx, srx, N)
            if unc:
                res.skipped["band-edge delay within 1e-9 of an integer"] += 1
                continue
            keep = max(0, stop - start)
            tol = float(np.where(loose, 0, budget).max()) + 16 * EPS32
            for dt in case["dtypes"]:
                for trailing in ((), (2,)):
                    cls = "DualPolarizationSignal" if trailing else "BasebandSignal"
                    shape = (N, nchan) + trailing + (2 * N,)
                    data = np.broadcast_to(np.asarray(Xb, complex).reshape((N,) + (1,) * (1 + len(trailing)) + (2 * N,)),
                                           shape).astype(dt)
                    z = factory.make(cls, np.array(data), sample_rate=sr_mhz * u.MHz, fc=fc_mhz * u.MHz, align=align,
                                     start_name="iso", pol_type="linear", meta={"m": 5})
                    kw = {} if ref is None else {"ref_freq": ref}
                    sub2 = dict(sub, dtype=dt, trailing=list(trailing))
                    try:
                        out = pb.coherent_dedispersion(z, dm, **kw)
                    except Exception as e:
                        res.transitions += 1
                        res.violation("dedisperse|raised", f"{type(e).__name__}: {e} [{sub2}]", case, sub2)
                        continue
                    res.transitions += 1
                    res.traces += 1
                    res.state(("dd", case["band"], nchan, align, N, dmv, str(dm.unit), refkind, dt, trailing))
                    if type(out) is not type(z) or out.dtype != z.dtype:
                        res.violation("dedisperse|type", f"{type(out).__name__}/{out.dtype} [{sub2}]", case, sub2)
                        continue
                    if len(out) != keep or out.shape[1:] != z.shape[1:]:
                        res.violation("dedisperse|window length", f"kept {len(out)} samples, exact band-edge delays "
                                      f"({float(dtop):.4g}, {float(dbot):.4g}) samples give [{start}, {stop}) = {keep} "
                                      f"[{sub2}]", case, sub2)
                        continue
                    for k in ("sample_rate", "center_freq", "chan_bw", "freq_align", "meta"):
                        if getattr(out, k) != getattr(z, k):
                            res.violation(f"dedisperse|{k}", f"{k} changed [{sub2}]", case, sub2)
                    if keep == 0:
                        res.hits["block shorter than the sweep (empty result)"] += 1
                        continue
                    d = T(out.start_time) - T(z.start_time) - F(start) / srx / 86400
                    if not res.ratio("start_time err / budget", abs(d), 2 * ULP_T + F(start, 2 ** 50) / srx / 86400):
                        res.violation("dedisperse|start_time", f"start advanced by "
                                      f"{float((T(out.start_time) - T(z.start_time)) * 86400 * srx):.6g} samples, front crop is "
                                      f"{start} [{sub2}]", case, sub2)
                    y = np.asarray(out.data)
                    worst = 0.0
                    for c in range(nchan):
                        per_variant = []
                        for vi in range(len(variants)):
                            Hc = orc[vi][c][0]
                            E = ((Wi * Hc[None, :]) @ W @ Xb)[start:stop]
                            ev = 0.0
                            for idx in (np.ndindex(*trailing) if trailing else [()]):
                                col = y[(slice(None), c) + idx].astype(dft.CLD)
                                ev = max(ev, float(np.max(np.abs(col - E))))
                            per_variant.append(ev)
                        worst = max(worst, min(per_variant))
                    if not res.ratio("output err / budget", worst, tol):
                        res.violation("dedisperse|values", f"max |out - IDFT(DFT(x) H)| = {worst:.3g} (budget {tol:.3g}) "
                                      f"[{sub2}]", case, sub2)
                    if start and (N - stop):
                        res.hits["cropped on both ends (reference inside band)"] += 1
                    if refkind == "inf":
                        res.hits["infinite reference frequency"] += 1
                    if refkind in ("above", "below"):
                        res.hits["reference outside the band"] += 1
                    # ---- the reference frequency held in single precision (a value exactly representable there)
                    if isinstance(ref, u.Quantity) and np.isfinite(ref.value) and float(np.float32(ref.value)) == float(ref.value) and N <= 8:
                        ref32 = u.Quantity(np.float32(ref.value), ref.unit, dtype=np.float32)
                        res.transitions += 1
                        try:
                            o32 = pb.coherent_dedispersion(z, dm, ref_freq=ref32)
                            if len(o32) != len(out) or (y.size and float(np.max(np.abs(np.asarray(o32.data) - y))) > 4 * EPS32):
                                res.violation("dedisperse|reference frequency as float32", f"ref_freq = {ref!r} held as float32 gives a "
                                              f"different result [{sub2}]", case, sub2)
                            else:
                                res.hits["reference frequency held in single precision"] += 1
                        except Exception as e:
                            res.violation("dedisperse|reference frequency as float32 raised", f"{type(e).__name__}: {e} [{sub2}]", case, sub2)
                    # ---- supplied chirp == internal chirp
                    chs = dm.chirp_from_signal(z, ref_freq=ref)
                    o2 = pb.coherent_dedispersion(z, dm, chirp=chs, **kw)
                    res.transitions += 2
                    if len(o2) != len(out) or not np.array_equal(np.asarray(o2.data), y) or \
                            T(o2.start_time) != T(out.start_time):
                        res.violation("dedisperse|supplied chirp differs", f"supplied chirp gives a different result [{sub2}]",
                                      case, sub2)
                    # the documentation calls the chirp "array-like": the same values as nested lists / a read-only array
                    if N <= 8:
                        ro = np.array(chs)
                        ro.flags.writeable = False
                        for form, arg in (("nested list", np.asarray(chs).tolist()), ("read-only array", ro)):
                            res.transitions += 1
                            try:
                                o3 = pb.coherent_dedispersion(z, dm, chirp=arg, **kw)
                            except Exception as e:
                                res.violation(f"dedisperse|supplied chirp as {form} raised", f"{type(e).__name__}: {e} [{sub2}]", case, sub2)
                                continue
                            y3 = np.asarray(o3.data)
                            if len(o3) != len(out) or (y.size and float(np.max(np.abs(y3 - y))) > 4 * EPS32):
                                res.violation(f"dedisperse|supplied chirp as {form} differs", f"chirp given as {form} gives a different "
                                              f"result [{sub2}]", case, sub2)
                        res.hits["supplied chirp as nested list / read-only array"] += 1
                    res.outcome((N, keep, start))
    # Dask-backed input: several DMs evaluated in ONE graph must each equal their own NumPy result
    if N >= 8:
        import dask
        import dask.array as da
        rng = np.random.default_rng(55)
        x = rng.uniform(-1, 1, (N, nchan, 2)) + 1j * rng.uniform(-1, 1, (N, nchan, 2))
        zn = factory.make("DualPolarizationSignal", x, sample_rate=sr_mhz * u.MHz, fc=fc_mhz * u.MHz, align=align, start_name="iso",
                          pol_type="linear")
        zd = type(zn).like(zn, da.from_array(x, chunks=(N, 1, 1)))
        unit = dispersion.delay_samples(1, hz(zn.min_freq), hz(zn.center_freq), srx) - dispersion.delay_samples(1, hz(zn.max_freq), hz(zn.center_freq), srx)
        dms = [pb.DM(float(F(t_) / unit)) for t_ in (1.7, -1.7, 2.9)]
        refs = [np.asarray(pb.coherent_dedispersion(zn, d_).data) for d_ in dms]
        outs = [pb.coherent_dedispersion(zd, d_) for d_ in dms]
        got = dask.compute(*[o.data for o in outs], scheduler="synchronous")
        res.transitions += 6
        for k, (g, r) in enumerate(zip(got, refs)):
            if g.shape != r.shape or (r.size and float(np.max(np.abs(g - r))) > 64 * EPS32):
                res.violation("dedisperse|dask siblings", f"Dask-backed input, DM #{k} of three evaluated in one graph differs from its "
                              f"NumPy result", case, {"k": k})
        chs = dask.compute(*[d_.chirp_from_signal(zd) for d_ in dms], scheduler="synchronous")
        for k, (c_, d_) in enumerate(zip(chs, dms)):
            if not np.array_equal(c_, np.asarray(d_.chirp_from_signal(zn))):
                res.violation("chirp|dask siblings", f"chirp #{k} of three built lazily in one graph differs from the eager chirp", case, {"k": k})
        res.hits["dask-backed siblings"] += 1
        # two signals whose centre frequencies differ by a few Hz, dedispersed lazily and computed together; the channels of one
        # signal under a coarse NumPy print precision: every chirp must be its own (lazy chirps are keyed by their arguments)
        xs_ = rng.uniform(-1, 1, (N, 2)) + 1j * rng.uniform(-1, 1, (N, 2))
        pair = [factory.make("BasebandSignal", da.from_array(xs_, chunks=(N, 1)), sample_rate=250 * u.kHz, fc=fc_, align="center",
                             start_name="iso") for fc_ in (1400000000 * u.Hz, 1400000004 * u.Hz)]
        pair_np = [type(p_).like(p_, xs_) for p_ in pair]
        dmx_ = pb.DM(10.0)
        refq = 2.8e9 * u.Hz
        want_ = [np.asarray(pb.coherent_dedispersion(p_, dmx_, ref_freq=refq).data) for p_ in pair_np]
        lazy_ = [pb.coherent_dedispersion(p_, dmx_, ref_freq=refq) for p_ in pair]
        got_ = dask.compute(*[o.data for o in lazy_], scheduler="synchronous")
        res.transitions += 4
        for k, (g, w) in enumerate(zip(got_, want_)):
            if g.shape != w.shape or (w.size and float(np.max(np.abs(g - w))) > 64 * EPS32):
                res.violation("dedisperse|dask|signals a few Hz apart computed together", f"signal #{k} (centre {pair[k].center_freq}) "
                              f"differs from its NumPy result by {float(np.max(np.abs(g - w))) if g.shape == w.shape else 'shape'}", case, {"k": k})
        wide = factory.make("BasebandSignal", da.from_array(rng.uniform(-1, 1, (N, 8)) + 0j, chunks=(N, 2)), sample_rate=250 * u.kHz,
                            fc=1.4 * u.GHz, align="center", start_name="iso")
        wide_np = type(wide).like(wide, np.asarray(wide.data))
        ref_ch = np.asarray(dmx_.chirp_from_signal(wide_np))
        with np.printoptions(precision=3):
            lazy_ch = dmx_.chirp_from_signal(wide)
            got_ch = np.asarray(lazy_ch.compute(scheduler="synchronous"))
        res.transitions += 2
        if got_ch.shape != ref_ch.shape or float(np.max(np.abs(got_ch - ref_ch))) > 8 * EPS32:
            res.violation("chirp|dask|coarse print precision", f"lazy chirps of 8 channels built under np.printoptions(precision=3) "
                          f"differ from the eager chirps by {float(np.max(np.abs(got_ch - ref_ch))):.3g}", case, None)
        res.hits["lazy chirps of nearly equal arguments"] += 1
        # ---- histories: a chirp handed to the caller is the caller's to modify; later dedispersions must not change
        d0 = dms[0]
        for how in ("chirp_function", "chirp_from_signal"):
            try:
                if how == "chirp_function":
                    chs_ = [d0.chirp_function(N, zn.dt, f_, zn.center_freq) for f_ in zn.channel_freqs]
                else:
                    chs_ = [d0.chirp_from_signal(zn)]
                for c_ in chs_:
                    if isinstance(c_, np.ndarray) and c_.flags.writeable:
                        c_[...] = 0
                again = np.asarray(pb.coherent_dedispersion(zn, d0).data)
            except Exception as e:
                res.violation("dedisperse|history raised", f"{how}: {type(e).__name__}: {e}", case, {"how": how})
                continue
            res.transitions += 2
            if again.shape != refs[0].shape or not np.array_equal(again, refs[0]):
                res.violation("dedisperse|result depends on what the caller did to an earlier chirp", f"after zeroing the array returned "
                              f"by {how} a new coherent_dedispersion differs from the first one", case, {"how": how})
            res.hits["caller modified an earlier chirp"] += 1
        history.reuse_buffer(res, case, zn, [("coherent_dedispersion", lambda q_: pb.coherent_dedispersion(q_, d0)),
                                             ("coherent_dedispersion ref=top", lambda q_: pb.coherent_dedispersion(q_, dms[2], ref_freq=q_.max_freq))],
                             "dedisperse")
        # use the signal, re-assign its sample rate, dedisperse: == freshly built signal
        obj = type(zn).like(zn)
        _ = (pb.coherent_dedispersion(obj, d0), obj.dt, obj.channel_freqs, obj.max_freq)
        for factor in (2, 0.5):
            r2 = obj.sample_rate * factor
            obj.sample_rate = r2             # (a baseband signal is critically sampled: its channel width follows)
            fresh = type(zn).like(zn, sample_rate=r2)
            try:
                a_, b_ = pb.coherent_dedispersion(obj, d0), pb.coherent_dedispersion(fresh, d0)
                ca, cb = np.asarray(d0.chirp_from_signal(obj)), np.asarray(d0.chirp_from_signal(fresh))
            except Exception as e:
                res.violation("dedisperse|assignment history raised", f"{type(e).__name__}: {e}", case, {"factor": factor})
                break
            res.transitions += 4
            if not np.array_equal(ca, cb) or a_.shape != b_.shape or not np.array_equal(np.asarray(a_.data), np.asarray(b_.data)) or \
                    T(a_.start_time) != T(b_.start_time):
                res.violation("dedisperse|assignment history|stale sample spacing", f"after use and assigning sample_rate x {factor} the "
                              f"chirp / dedispersed signal differ from those of a freshly built signal with that rate", case, {"factor": factor})
                break
        else:
            res.hits["sample_rate assigned between dedispersions"] += 1
    res.sample({"band_MHz": BANDS[case["band"]], "nchan": nchan, "align": align, "N": N, "dm": 1.0, "ref": "top"}, 1)


def packet_case(case, res):
    """A narrow-band wave packet at baseband bin k1 must arrive earlier by the C06 delay of its frequency."""
    fc_mhz, sr_mhz = BANDS[case["band"]]
    N, n0, sig = 256, 128, 10.0
    n = np.arange(N)
    for k1 in (-104, -84, 80, 100):
        x = np.exp(-((n - n0) ** 2) / (2 * sig ** 2)) * np.exp(2j * np.pi * k1 * n / N)
        z = factory.make("BasebandSignal", x[:, None].astype(np.complex128), sample_rate=sr_mhz * u.MHz, fc=fc_mhz * u.MHz,
                         start_name="iso")
        srx, fcx = hz(z.sample_rate), hz(z.center_freq)
        f1 = fcx + k1 * srx / N
        for refkind in ("center", "top", "bottom"):
            ref = ref_of(z, refkind)
            refx = hz(ref)
            unit = dispersion.delay_samples(1, f1, refx, srx)
            if abs(unit) < F(1, 10 ** 6):
                continue
            for target in (10, -14):
                dmv = case["sign"] * abs(float(F(target) / unit))
                d = dispersion.delay_samples(F(dmv), f1, refx, srx)
                out = pb.coherent_dedispersion(z, pb.DM(dmv), ref_freq=ref)
                res.transitions += 1
                res.traces += 1
                res.state(("packet", case["band"], case["sign"], k1, refkind, target))
                start = round(float((T(out.start_time) - T(z.start_time)) * 86400 * srx))
                env = np.abs(np.asarray(out.data)[:, 0])
                want = n0 - float(d)
                if len(env) < 8 or not (start + 25 <= want <= start + len(env) - 25):
                    res.skipped["wave packet would fall near/outside the valid window"] += 1
                    continue
                peak = int(np.argmax(env)) + start
                sub = {"k1": k1, "ref": refkind, "dm": dmv, "delay_samples": float(d)}
                if not res.ratio("packet position err / 2.5 samples", abs(peak - want), 2.5):
                    res.violation("packet|group delay", f"packet at bin {k1} peaks at input-time index {peak}, the dispersion "
                                  f"delay {float(d):.3f} samples predicts {want:.2f} (sign/convention of the chirp) [{sub}]",
                                  case, sub)
                res.hits["wave packet moved by its delay"] += 1
    res.sample({"packet": True, "band": BANDS[case["band"]], "sign": case["sign"]}, 1)


def roundtrip_case(case, res):
    """DM then -DM on a compactly supported (Gaussian-windowed, band-limited) input restores it on the doubly cropped interior."""
    fc_mhz, sr_mhz = BANDS[case["band"]]
    rng = np.random.default_rng(5)
    for N in (1024, 1000, 729):
        for nchan, align in ((1, "center"), (2, "bottom"), (3, "center"), (2, "top")):
            w = rng.uniform(-1, 1, (N, nchan, 2)) + 1j * rng.uniform(-1, 1, (N, nchan, 2))
            fr_ = np.abs(np.fft.fftfreq(N))
            taper = np.where(fr_ < 0.3, 1.0, np.where(fr_ < 0.4, 0.5 * (1 + np.cos(np.pi * (fr_ - 0.3) / 0.1)), 0.0))
            w = np.fft.ifft(np.fft.fft(w, axis=0) * taper[:, None, None], axis=0)
            x = w * np.exp(-(((np.arange(N) - N // 2) / 40.0) ** 2))[:, None, None]
            x = x / np.max(np.abs(x))
            z = factory.make("DualPolarizationSignal", x, sample_rate=sr_mhz * u.MHz, fc=fc_mhz * u.MHz, align=align,
                             start_name="iso", pol_type="circular")
            srx = hz(z.sample_rate)
            for refkind in ("none", "top", "bottom", "label"):
                ref = ref_of(z, refkind)
                refx = hz(z.center_freq) if ref is None else hz(ref)
                unit = dispersion.delay_samples(1, hz(z.min_freq), refx, srx) - dispersion.delay_samples(1, hz(z.max_freq), refx, srx)
                dmv = case["sign"] * float(F(37) / abs(unit))
                kw = {} if ref is None else {"ref_freq": ref}
                y = pb.coherent_dedispersion(z, pb.DM(dmv), **kw)
                y2 = pb.coherent_dedispersion(y, pb.DM(-dmv), **kw)
                res.transitions += 2
                res.traces += 1
                res.state(("rt", case["band"], case["sign"], N, nchan, align, refkind))
                off = round(float((T(y2.start_time) - T(z.start_time)) * 86400 * srx))
                sub = {"N": N, "nchan": nchan, "align": align, "ref": refkind, "dm": dmv}
                if off < 0 or off + len(y2) > N or len(y2) < N - 200:
                    res.violation("roundtrip|window", f"doubly cropped window [{off}, {off + len(y2)}) of {N} [{sub}]", case, sub)
                    continue
                e = float(np.max(np.abs(np.asarray(y2.data) - x[off:off + len(y2)])))
                if not res.ratio("roundtrip err / (256 eps32)", e, 256 * EPS32):
                    res.violation("roundtrip|values", f"DM then -DM differs from the input by {e:.3g} [{sub}]", case, sub)
                res.hits["DM then -DM"] += 1
    res.sample({"roundtrip": True, "band": BANDS[case["band"]]}, 1)


def check_case(case):
    res = report.Result()
    {"grid": grid_case, "packet": packet_case, "roundtrip": roundtrip_case}[case["kind"]](case, res)
    return res


def main(argv=None):
    return report.run_check(
        PID, gen_cases=gen_cases, check_case=check_case, describe=describe,
        required_hits=["buffer overwritten between calls", "chirp checked", "|phi| > 1000 cycles (reduction mod 1 matters)",
                       "block shorter than the sweep (empty result)", "cropped on both ends (reference inside band)",
                       "reference outside the band", "infinite reference frequency", "DM stored in another unit", "dask-backed siblings", "caller modified an earlier chirp", "band-edge delay a few 1e-7 above a whole sample", "sample_rate assigned between dedispersions", "wave packet moved by its delay", "DM then -DM", "supplied chirp as nested list / read-only array", "lazy chirps of nearly equal arguments", "reference frequency held in single precision"],
        assumptions=["chirp is single precision by design; budget 8 eps32 + 2 pi |phi| 32 eps64 (1 + f_ref/|f - f_ref|) for the "
                     "float64 cancellation in 1/f_ref - 1/f", "Nyquist-bin frequency convention (+-sr/2) left open for even N",
                     "band-edge delays within 1e-9 of an integer leave the crop open"],
        argv=argv)


if __name__ == "__main__":
    sys.exit(main())
