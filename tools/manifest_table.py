SOURCE_COMMITS = []
CHECKS = [
 {"property_id": "C18",
  "text": "Exhaustive enumeration on the real functions: every N below 2^20 (quick) / 2^23 (thorough), N in {s-1,s,s+1} around "
          "7-smooth s below 2^62, and fast_len on every signal length 0..200 of every class; each result compared with an "
          "independently generated sorted list of all 7-smooth numbers. Complete within the stated bounds, silent outside them.",
  "note": "Trusts the nested-multiplication generator of the smooth list (self-checked against trial division in setup) and Python big-int arithmetic.",
  "technique": "bounded exhaustive enumeration of inputs on the real code against a reference model (explicit-state, one state per input)"},
]
_ALL = ["C%02d" % i for i in range(1, 21)]
NOT_APPLICABLE = [{"property_id": p, "reason": "check not yet built in this session (planned in DESIGN.md; no claim made yet)"}
                  for p in _ALL if p not in {c["property_id"] for c in CHECKS}]
