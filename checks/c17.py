"""C17 -- elementwise NumPy operations on signals equal the same operations on their data.

Enumerated: EVERY NumPy ufunc without a gufunc signature x operand arrangements (signal alone, with itself,
with Python / NumPy scalars of several kinds, arrays, Quantities, another signal of the same or another class,
both orders) x 8 signal variants (all classes; float, int, bool, complex data) x NumPy / Dask x out= forms and
in-place operators (chains of two), ufunc methods, matmul, np.asarray / np.array with dtype and copy.
Oracle: the same ufunc applied to the underlying arrays.
"""
import itertools
import operator
import sys

import numpy as np
import astropy.units as u
import dask.array as da

from pbmc import bind_repo, report, factory, invariants

pb = bind_repo()
PID = "C17"

UFUNCS = sorted((getattr(np, n) for n in dir(np) if isinstance(getattr(np, n), np.ufunc) and getattr(np, n).signature is None
                 and getattr(np, n).nin <= 2), key=lambda f: f.__name__)
UFUNCS = list({f.__name__: f for f in UFUNCS}.values())

VARIANTS = [("Signal", "float64"), ("Signal", "int64"), ("Signal", "bool"), ("RadioSignal", "int32"), ("IntensitySignal", "float32"),
            ("BasebandSignal", "complex128"), ("FullStokesSignal", "float64"), ("DualPolarizationSignal", "complex64")]


def describe(tier):
    return {
        "bounds": {"ufuncs": [f.__name__ for f in UFUNCS], "signal variants": VARIANTS, "backends": ["numpy", "dask"],
                   "second operands": ["itself", "python int", "python float", "python bool", "python complex", "np.float32", "np.int8",
                                       "ndarray same shape", "ndarray broadcast", "dimensionless Quantity", "signal same class",
                                       "signal other class"], "orders": 2},
        "alphabet": ["ufunc(z)", "ufunc(z, b)", "ufunc(b, z)", "out=z / out=(z,None) / out=(None,z)", "in-place operators and chains",
                     "reduce accumulate reduceat outer at", "matmul / @", "np.asarray / np.array (dtype, copy)"],
        "rule": "state = (ufunc, variant, backend, arrangement); reference = the ufunc on .data of every signal operand; if the "
                "reference raises the signal call must raise (Dask: at compute at the latest); else values equal (NaN-aware, after "
                "the class's safe cast), type/metadata of the first signal operand, ValueError when the class cannot hold the "
                "result dtype, tuple for two outputs, same object for out=",
    }


def gen_cases(tier, seed):
    for vi in range(len(VARIANTS)):
        for be in ("numpy", "dask"):
            for part in range(4):
                yield {"kind": "ufuncs", "variant": vi, "backend": be, "part": part}
            yield {"kind": "forms", "variant": vi, "backend": be}


def make_data(cls, dt, alt=False):
    ss = factory.sample_shape(cls, 3)
    n = 4
    idx = np.arange(n * int(np.prod(ss))).reshape((n,) + ss)
    dt = np.dtype(dt)
    if dt.kind == "b":
        return (idx % 3 == (1 if alt else 0))
    if dt.kind in "iu":
        return ((idx * (3 if alt else 1)) % 7 - 2).astype(dt)
    base = ((idx * (5 if alt else 1)) % 9 - 3) / 2.0
    if dt.kind == "c":
        return (base + 1j * (((idx + (2 if alt else 0)) % 5) - 2) / 2.0).astype(dt)
    return base.astype(dt)


def make_sig(cls, dt, backend, alt=False):
    x = make_data(cls, dt, alt)
    if backend == "dask":
        x = da.from_array(x, chunks=(2,) + x.shape[1:])
    return factory.make(cls, x, rate_name="1MHz", start_name="iso", fc=400 * u.MHz, align="center", pol_type="circular",
                        chan_bw=None if cls in ("BasebandSignal", "DualPolarizationSignal") else 2 * u.MHz, meta={"id": cls})


def raw(x):
    return x.data if isinstance(x, pb.Signal) else x


def materialise(a):
    if isinstance(a, da.Array):
        a = a.compute()
    return a


def values_equal(a, b):
    a, b = materialise(a), materialise(b)
    a, b = np.asarray(a), np.asarray(b)
    if a.shape != b.shape:
        return False
    if a.dtype.kind in "fc" or b.dtype.kind in "fc":
        return bool(np.array_equal(a, b, equal_nan=True))
    return bool(np.array_equal(a, b))


def class_cast(cls_obj, arr):
    """(ok, array after the class's safe cast) -- None dtype set accepts anything."""
    req = invariants.DTYPES.get(cls_obj.__name__)
    if not req or arr.dtype in [np.dtype(r) for r in req]:
        return True, arr
    try:
        if np.can_cast(arr.dtype, np.dtype(req[0]), "safe"):
            return True, arr.astype(req[0])
    except TypeError:
        pass
    return False, None


def second_operands(z, cls, dt, backend):
    shape = tuple(z.shape)
    other_cls = {"Signal": "RadioSignal", "RadioSignal": "IntensitySignal", "IntensitySignal": "BasebandSignal",
                 "BasebandSignal": "IntensitySignal", "FullStokesSignal": "IntensitySignal",
                 "DualPolarizationSignal": "FullStokesSignal"}[cls]
    odt = {"RadioSignal": "float64", "IntensitySignal": "float64", "BasebandSignal": "complex128", "FullStokesSignal": "float64"}[other_cls]
    zo_data = make_data(other_cls, odt, True)
    ops = [("itself", z), ("python int", 2), ("python float", 2.5), ("python bool", True), ("python complex", 1 + 2j),
           ("np.float32", np.float32(1.5)), ("np.int8", np.int8(3)), ("ndarray same shape", make_data(cls, dt, True)),
           ("ndarray broadcast", np.arange(1, shape[-1] + 1).astype(float)), ("dimensionless Quantity", 2.0 * u.dimensionless_unscaled), ("percent Quantity", 50 * u.percent),
           ("signal same class", make_sig(cls, dt, backend, True))]
    if zo_data.shape == shape:
        ops.append(("signal other class", make_sig(other_cls, odt, backend, True)))
    # signal operands of another dimensionality: NumPy aligns TRAILING axes of the underlying arrays
    def plain(arr):
        if backend == "dask":
            arr = da.from_array(arr, chunks=arr.shape)
        return pb.Signal(arr, sample_rate=1 * u.MHz)
    ops.append(("signal with fewer dimensions (trailing axis)", plain(np.arange(1.0, shape[-1] + 1))))
    if len(shape) > 1 and shape[0] != shape[-1]:
        ops.append(("signal with fewer dimensions (time length, not broadcastable)", plain(np.arange(1.0, shape[0] + 1))))
    elif len(shape) == 1:
        ops.append(("signal with one more dimension", plain(np.arange(2.0 * shape[0]).reshape((2,) + shape) - 3)))
    return ops


def first_signal(args):
    """The operand whose type/metadata the result must carry: the first signal (also when a later signal is an instance of a
    strict subclass, which NumPy asks first)."""
    sigs = [a for a in args if isinstance(a, pb.Signal)]
    # (NumPy dispatches to the most derived class first; the statement still names the FIRST signal operand)
    return sigs[0], False


def check_call(res, case, uf, args, sub, kwargs=None):
    """One ufunc call with signal operands vs the same call on raw data."""
    kwargs = kwargs or {}
    name = uf.__name__
    site = f"ufunc|{name}"
    rargs = [raw(a) for a in args]
    try:
        want = uf(*rargs, **kwargs)
        wmat = tuple(materialise(w) for w in (want if isinstance(want, tuple) else (want,)))
        werr = None
    except Exception as e:
        want, werr = None, e
    try:
        got = uf(*args, **kwargs)
        gerr = None
    except Exception as e:
        got, gerr = None, e
    res.transitions += 1
    res.traces += 1
    if werr is not None:
        if gerr is None:
            # Dask may defer the failure to compute time
            try:
                for g in (got if isinstance(got, tuple) else (got,)):
                    materialise(raw(g))
                res.violation(f"{site}|reference raises", f"{name} on the raw data raises {type(werr).__name__} but the signal call "
                              f"returned {got!r} [{sub}]", case, sub)
            except Exception:
                res.hits["reference raises: signal call raises too"] += 1
        else:
            res.hits["reference raises: signal call raises too"] += 1
        return
    fs, ambiguous = first_signal(args)
    outs_w = wmat
    casts = [class_cast(type(fs), np.asarray(w) if not isinstance(w, u.Quantity) else np.asarray(w.value)) for w in outs_w]
    if not all(c[0] for c in casts):
        if ambiguous:
            res.skipped["mixed sub/superclass operands (dispatch order open)"] += 1
            return
        if gerr is None:
            res.violation(f"{site}|mislabelled result", f"{name} gives dtype {[np.asarray(w).dtype for w in outs_w]} which "
                          f"{type(fs).__name__} cannot hold, but the call returned {got!r} instead of raising ValueError [{sub}]",
                          case, sub)
        elif not isinstance(gerr, ValueError):
            res.violation(f"{site}|wrong exception", f"{type(gerr).__name__}: {gerr} (ValueError expected) [{sub}]", case, sub)
        else:
            res.hits["result dtype not admitted -> ValueError"] += 1
        return
    if gerr is not None:
        if ambiguous:
            res.skipped["mixed sub/superclass operands (dispatch order open)"] += 1
            return
        res.violation(f"{site}|raised", f"{name}: {type(gerr).__name__}: {gerr}; on the raw data it returns dtype "
                      f"{[np.asarray(w).dtype for w in outs_w]} [{sub}]", case, sub)
        return
    gots = got if isinstance(got, tuple) else (got,)
    if uf.nout == 2:
        res.hits["two outputs"] += 1
        if not isinstance(got, tuple) or len(got) != 2:
            res.violation(f"{site}|nout", f"{name} returned {type(got).__name__}, expected a tuple of 2 signals [{sub}]", case, sub)
            return
    for g, w, (ok, wc) in zip(gots, outs_w, casts):
        if not isinstance(g, pb.Signal):
            res.violation(f"{site}|not a signal", f"{name} returned {type(g).__name__} [{sub}]", case, sub)
            return
        if not ambiguous:
            d = None
            if type(g) is not type(fs):
                d = f"type {type(g).__name__}, first signal operand is {type(fs).__name__}"
            else:
                for k in invariants.ATTRS:
                    if hasattr(fs, k) and repr(getattr(g, k)) != repr(getattr(fs, k)):
                        d = f"{k} = {getattr(g, k)!r}, first signal operand has {getattr(fs, k)!r}"
                        break
            if d:
                res.violation(f"{site}|metadata", f"{name}: {d} [{sub}]", case, sub)
                return
        gv = materialise(g.data)
        gv = np.asarray(gv.value) if isinstance(gv, u.Quantity) else np.asarray(gv)
        if not values_equal(gv, wc):
            res.violation(f"{site}|values", f"{name}: values differ from the ufunc on the underlying arrays "
                          f"(got dtype {gv.dtype}, reference dtype {np.asarray(wc).dtype}) [{sub}]", case, sub)
            return
        for a_ in args:
            if isinstance(a_, pb.Signal):
                if g.data is a_.data or (isinstance(g.data, np.ndarray) and isinstance(a_.data, np.ndarray) and g.data.size
                                         and np.shares_memory(g.data, a_.data)):
                    res.violation(f"{site}|result aliases an operand", f"{name}: the out-of-place result shares its data container with an "
                                  f"operand (an in-place change of the result would change the operand) [{sub}]", case, sub)
                    return
        if case["backend"] == "dask" and not isinstance(g.data, da.Array):
            res.violation(f"{site}|not lazy", f"{name}: Dask-backed operands gave {type(g.data).__name__} data [{sub}]", case, sub)
    res.outcome(name)


def ufuncs_case(case, res):
    cls, dt = VARIANTS[case["variant"]]
    be = case["backend"]
    z = make_sig(cls, dt, be)
    seconds = second_operands(z, cls, dt, be)
    mine = [f for i, f in enumerate(UFUNCS) if i % 4 == case["part"]]
    for uf in mine:
        if uf.nin == 1:
            res.state((uf.__name__, cls, dt, be, "unary"))
            check_call(res, case, uf, [z], {"ufunc": uf.__name__, "arrangement": "ufunc(z)"})
            continue
        for bname, b in seconds:
            for order in ("z,b", "b,z"):
                if bname == "itself" and order == "b,z":
                    continue
                args = [z, b] if order == "z,b" else [b, z]
                res.state((uf.__name__, cls, dt, be, bname, order))
                check_call(res, case, uf, args, {"ufunc": uf.__name__, "second": bname, "order": order})
            if bname in ("python float", "python complex") and np.dtype(dt).kind in "iub":
                res.hits["python float/complex scalar with integer or bool signal"] += 1
            if bname == "signal other class":
                res.hits["signals of two classes"] += 1
    res.sample({"variant": [cls, dt], "backend": be, "ufuncs": [f.__name__ for f in mine][:5]}, 1)


def masked_forms(res, case, cls, dt):
    """Signal data given as a masked array: the ufunc on the signal equals the ufunc on the masked array (values AND mask)."""
    raw = make_data(cls, dt)
    mask = (np.arange(raw.size).reshape(raw.shape) % 5 == 1)
    zm = factory.make(cls, np.ma.MaskedArray(raw.copy(), mask=mask), rate_name="1MHz", start_name="iso", fc=400 * u.MHz, align="center",
                      pol_type="circular", chan_bw=None if cls in ("BasebandSignal", "DualPolarizationSignal") else 2 * u.MHz)
    if not isinstance(zm.data, np.ma.MaskedArray):
        res.skipped["masked array not kept by the constructor"] += 1
        return
    md = zm.data
    for nm, fs, fr in (("z + 1", lambda: zm + 1, lambda: md + 1), ("2 - z", lambda: 2 - zm, lambda: 2 - md),
                       ("np.multiply(z, z)", lambda: np.multiply(zm, zm), lambda: np.multiply(md, md)),
                       ("np.negative(z)", lambda: np.negative(zm), lambda: np.negative(md)),
                       ("np.add(ndarray, z)", lambda: np.add(raw, zm), lambda: np.add(raw, md)),
                       ("abs(z)", lambda: abs(zm), lambda: abs(md))):
        try:
            want = fr()
        except Exception:
            continue
        ok_, wc = class_cast(type(zm), np.asarray(want))
        if not ok_:
            continue
        try:
            got = fs()
        except Exception as e:
            res.violation(f"masked data|{nm}|raised", f"{type(e).__name__}: {e}", case, {"op": nm})
            continue
        res.transitions += 1
        gd = got.data if isinstance(got, pb.Signal) else got
        if isinstance(want, np.ma.MaskedArray):
            if not isinstance(gd, np.ma.MaskedArray) or not np.array_equal(np.ma.getmaskarray(gd), np.ma.getmaskarray(want)) or \
                    not np.array_equal(np.asarray(gd.filled(0)), np.asarray(want.filled(0)).astype(gd.dtype)):
                res.violation(f"masked data|{nm}|mask or values", f"{nm} on a signal holding a masked array: result data is "
                              f"{type(gd).__name__}, the same ufunc on the masked array keeps the mask", case, {"op": nm})
                continue
        res.hits["masked-array data"] += 1


def forms_case(case, res):
    cls, dt = VARIANTS[case["variant"]]
    be = case["backend"]
    kind = np.dtype(dt).kind
    if be == "numpy" and kind in "fc":
        masked_forms(res, case, cls, dt)
    # ---- operators (dunder forms go through the mixin)
    z = make_sig(cls, dt, be)
    b = make_sig(cls, dt, be, True)
    for opname, op in (("+", operator.add), ("-", operator.sub), ("*", operator.mul), ("/", operator.truediv), ("//", operator.floordiv),
                       ("%", operator.mod), ("**", operator.pow), ("<", operator.lt), ("<=", operator.le), ("==", operator.eq),
                       ("!=", operator.ne), (">", operator.gt), (">=", operator.ge), ("&", operator.and_), ("|", operator.or_),
                       ("^", operator.xor), ("<<", operator.lshift), (">>", operator.rshift)):
        for bname, other in (("signal", b), ("python float", 2.5), ("python int", 2), ("ndarray", make_data(cls, dt, True))):
            for order in ("z op b", "b op z"):
                sub = {"operator": opname, "second": bname, "order": order}
                res.state((cls, dt, be, "op", opname, bname, order))
                lhs, rhs = (z, other) if order == "z op b" else (other, z)
                try:
                    want = op(raw(lhs), raw(rhs))
                    want = materialise(want)
                    werr = None
                except Exception as e:
                    werr = e
                try:
                    got = op(lhs, rhs)
                    gerr = None
                except Exception as e:
                    got, gerr = None, e
                res.transitions += 1
                res.traces += 1
                if werr is not None:
                    if gerr is None:
                        try:
                            materialise(raw(got))
                            res.violation(f"operator|{opname}|reference raises", f"raw data raises {type(werr).__name__}, signal "
                                          f"expression returned {got!r} [{sub}]", case, sub)
                        except Exception:
                            pass
                    continue
                ok, wc = class_cast(type(z), np.asarray(want))
                if not ok:
                    if gerr is None:
                        res.violation(f"operator|{opname}|mislabelled result", f"result dtype {np.asarray(want).dtype} not admitted by "
                                      f"{cls} but returned {got!r} [{sub}]", case, sub)
                    continue
                if gerr is not None:
                    res.violation(f"operator|{opname}|raised", f"{type(gerr).__name__}: {gerr} [{sub}]", case, sub)
                    continue
                if type(got) is not type(z) or not values_equal(got.data, wc):
                    res.violation(f"operator|{opname}|values", f"z {opname} {bname} ({order}) differs from the operator on the data "
                                  f"[{sub}]", case, sub)
    res.hits["operators"] += 1
    # ---- out= forms and in-place operators
    for uf, second in ((np.add, 1), (np.multiply, 2), (np.subtract, None), (np.negative, "unary"), (np.conjugate, "unary")):
        if kind == "b" and uf in (np.subtract, np.negative):
            continue
        target = make_sig(cls, dt, be)
        src = make_sig(cls, dt, be, True)
        meta_before = {k: repr(getattr(target, k)) for k in invariants.ATTRS if hasattr(target, k)}
        args = [src] if second == "unary" else [src, (src if second is None else second)]
        sub = {"ufunc": uf.__name__, "form": "out=z"}
        res.state((cls, dt, be, "out", uf.__name__))
        try:
            want = materialise(uf(*[raw(a) for a in args]))
            want = want.astype(np.dtype(dt), casting="same_kind")
        except Exception:
            continue
        try:
            r = uf(*args, out=target)
        except Exception as e:
            res.violation(f"out=|{uf.__name__}|raised", f"{type(e).__name__}: {e} [{sub}]", case, sub)
            continue
        res.transitions += 1
        res.traces += 1
        if r is not target:
            res.violation(f"out=|{uf.__name__}|identity", f"out=z did not return z (got {type(r).__name__}) [{sub}]", case, sub)
            continue
        if not values_equal(target.data, want):
            res.violation(f"out=|{uf.__name__}|values", f"values written into out=z differ from the reference [{sub}]", case, sub)
        now = {k: repr(getattr(target, k)) for k in invariants.ATTRS if hasattr(target, k)}
        if now != meta_before:
            res.violation(f"out=|{uf.__name__}|metadata", f"out=z changed z's own metadata [{sub}]", case, sub)
        res.hits["out= returns the same object"] += 1
    # ufunc keyword arguments are passed through: dtype=, casting=, where= (with out=)
    if kind in "fi" and be == "numpy":
        zk = make_sig(cls, dt, be)
        refd = materialise(zk.data)
        for nm, fn, want in (("dtype=", lambda: np.add(zk, 1, dtype=np.float64), np.add(refd, 1, dtype=np.float64)),
                             ("casting=", lambda: np.multiply(zk, 2, casting="same_kind"), np.multiply(refd, 2, casting="same_kind")),
                             # dtype= selects the type the computation is DONE in (not a cast of the finished result)
                             ("dtype= wider computation (third)", lambda: np.multiply(zk, 1 / 3, dtype=np.float64),
                              np.multiply(refd, 1 / 3, dtype=np.float64)),
                             ("dtype= wider computation (1e9)", lambda: np.multiply(zk, 10 ** 9, dtype=np.int64 if kind == "i" else np.float64),
                              np.multiply(refd, 10 ** 9, dtype=np.int64 if kind == "i" else np.float64)),
                             ("dtype= wider computation (square)", lambda: np.multiply(zk, zk, dtype=np.float64),
                              np.multiply(refd, refd, dtype=np.float64))):
            ok_, wc = class_cast(type(zk), np.asarray(want))
            try:
                r = fn()
            except Exception as e:
                if ok_:
                    res.violation(f"kwargs|{nm}|raised", f"{type(e).__name__}: {e}", case, {"kw": nm})
                continue
            res.transitions += 1
            if ok_ and (not isinstance(r, pb.Signal) or not values_equal(r.data, wc)):
                res.violation(f"kwargs|{nm}|values", f"{nm} result differs from the ufunc on the data", case, {"kw": nm})
        tgt = make_sig(cls, dt, be, True)
        tref = materialise(tgt.data).copy()
        mask = (np.arange(refd.size).reshape(refd.shape) % 2 == 0)
        np.add(refd, 5, out=tref, where=mask)
        try:
            r = np.add(zk, 5, out=tgt, where=mask)
            res.transitions += 1
            if r is not tgt or not values_equal(tgt.data, tref):
                res.violation("kwargs|where=|values", "np.add(z, 5, out=t, where=mask) differs from the same call on the data", case, None)
        except Exception as e:
            res.violation("kwargs|where=|raised", f"{type(e).__name__}: {e}", case, None)
        # the mask given as a SIGNAL (the result of a comparison of signals)
        tgt2 = make_sig(cls, dt, be, True)
        tref2 = materialise(tgt2.data).copy()
        msig = pb.Signal(mask.copy(), sample_rate=zk.sample_rate)
        np.multiply(refd, 3, out=tref2, where=mask)
        try:
            r = np.multiply(zk, 3, out=tgt2, where=msig)
            res.transitions += 1
            if r is not tgt2 or not values_equal(tgt2.data, tref2):
                res.violation("kwargs|where= signal|values", "np.multiply(z, 3, out=t, where=<boolean Signal>) differs from the same call on the data",
                              case, None)
        except BaseException as e:
            res.violation("kwargs|where= signal|raised", f"{type(e).__name__}: {str(e)[:80]}", case, None)
        res.hits["ufunc keyword arguments"] += 1
    # a labelled axis of length ONE (one channel, one time sample) stretched by the other operand's broadcasting
    if kind in "fc":
        zs = make_sig(cls, dt, be)
        cands = [("one time sample", zs[:1], np.arange(1.0, 6.0).reshape((5,) + (1,) * (zs.ndim - 1)))]
        if zs.ndim >= 2:
            cands.append(("one channel", zs[:, :1], np.arange(1.0, 4.0).reshape((3,) + (1,) * (zs.ndim - 2))))
        for what, z1, g in cands:
            for uf, args in ((np.multiply, [z1, g]), (np.subtract, [g, z1]), (np.greater, [z1, g]), (np.add, [z1, g])):
                sub = {"ufunc": uf.__name__, "stretched": what, "order": "z,g" if args[0] is z1 else "g,z"}
                res.state((cls, dt, be, "stretch", what, uf.__name__, sub["order"]))
                check_call(res, case, uf, args, sub)
            res.hits["length-1 labelled axis stretched by broadcasting"] += 1
    # out= / in-place with signals of ZERO time samples (valid signals; must still return the given object)
    if kind != "b":
        a0, b0, c0 = make_sig(cls, dt, be)[2:2], make_sig(cls, dt, be, True)[2:2], make_sig(cls, dt, be, True)[3:3]
        c0.meta = {"target": True}
        try:
            r = np.add(a0, b0, out=c0)
            res.transitions += 1
            if r is not c0 or r.meta != {"target": True}:
                res.violation("out=|zero-length target|identity", "np.add(a, b, out=c) with zero-length signals did not return c", case, None)
            ident = a0
            a0 += b0
            if a0 is not ident:
                res.violation("in-place|zero-length|identity", "'a += b' on a zero-length signal rebound the name to a new object", case, None)
            res.hits["zero-length out= target"] += 1
        except Exception as e:
            res.violation("out=|zero-length target|raised", f"{type(e).__name__}: {e}", case, None)
    if kind in "fc":
        # two outputs with out tuples
        for outform in ("(z,None)", "(None,z)", "(z,z2)"):
            a = make_sig(cls, dt, be)
            t1, t2 = make_sig(cls, dt, be, True), make_sig(cls, dt, be, True)
            if kind == "c":
                break
            out = {"(z,None)": (t1, None), "(None,z)": (None, t2), "(z,z2)": (t1, t2)}[outform]
            w1, w2 = np.modf(materialise(a.data))
            try:       # the raw container must itself support this out= form (dask.array.modf does not)
                probe = [make_sig(cls, dt, be, True).data, make_sig(cls, dt, be, True).data]
                np.modf(a.data, out=tuple(pr if o is not None else None for pr, o in zip(probe, out)))
            except Exception:
                res.skipped["raw container does not support out= for two-output ufuncs"] += 1
                continue
            try:
                r = np.modf(a, out=out)
            except Exception as e:
                res.violation("out=|modf|raised", f"{outform}: {type(e).__name__}: {e}", case, {"form": outform})
                continue
            res.transitions += 1
            if not isinstance(r, tuple) or len(r) != 2 or not all(isinstance(x, pb.Signal) for x in r):
                res.violation("out=|modf|result", f"{outform}: {r!r}", case, {"form": outform})
                continue
            for i, (ri, wi, oi) in enumerate(zip(r, (w1, w2), out)):
                if oi is not None and ri is not oi:
                    res.violation("out=|modf|identity", f"{outform}: output {i} is not the given signal", case, {"form": outform})
                if not values_equal(ri.data, wi):
                    res.violation("out=|modf|values", f"{outform}: output {i} holds the wrong values (outputs swapped?)", case,
                                  {"form": outform})
            res.hits["two-output out= tuple"] += 1
    # in-place operators and chains of two
    for ops in (("+=", "*="), ("-=", "+="), ("*=", "-=")):
        if kind == "b":
            continue
        zz = make_sig(cls, dt, be)
        ident = zz
        ref = materialise(zz.data).copy()
        other = make_sig(cls, dt, be, True)
        oref = materialise(other.data)
        meta_before = {k: repr(getattr(zz, k)) for k in invariants.ATTRS if hasattr(zz, k)}
        try:
            for o in ops:
                if o == "+=":
                    zz += other
                    ref = ref + oref
                elif o == "-=":
                    zz -= 2
                    ref = ref - 2
                else:
                    zz *= other
                    ref = ref * oref
        except Exception as e:
            res.violation("in-place|raised", f"{ops}: {type(e).__name__}: {e}", case, {"ops": list(ops)})
            continue
        res.transitions += 2
        res.traces += 1
        if zz is not ident:
            res.violation("in-place|identity", f"{ops}: in-place operator rebound the name to a new object", case, {"ops": list(ops)})
        if not values_equal(zz.data, ref.astype(dt)):
            res.violation("in-place|values", f"chain {ops} differs from the same chain on the data", case, {"ops": list(ops)})
        if {k: repr(getattr(zz, k)) for k in invariants.ATTRS if hasattr(zz, k)} != meta_before:
            res.violation("in-place|metadata", f"{ops} changed metadata", case, {"ops": list(ops)})
        res.hits["in-place chains"] += 1
    # ---- in-place operators with every operand kind, mirrored on a raw copy (incl. scaled dimensionless Quantities)
    if kind in "fc" and be == "numpy":
        operands = [("python float", 2.5), ("ndarray", make_data(cls, dt, True)), ("signal", make_sig(cls, dt, be, True)),
                    ("dimensionless Quantity", 2.0 * u.dimensionless_unscaled), ("percent Quantity", 50 * u.percent),
                    ("km/m Quantity", 0.002 * u.km / u.m), ("np.float32", np.float32(0.5))]
        import operator as _op
        for oname, other in operands:
            for opname, op in (("+=", _op.iadd), ("-=", _op.isub), ("*=", _op.imul), ("/=", _op.itruediv)):
                zz = make_sig(cls, dt, be)
                ref = np.array(materialise(zz.data))
                sub = {"op": opname, "operand": oname}
                try:
                    rref = op(ref, raw(other))
                    rref = np.asarray(rref.value if isinstance(rref, u.Quantity) else rref)
                    werr = None
                except Exception as e:
                    werr = e
                try:
                    r = op(zz, other)
                    gerr = None
                except Exception as e:
                    r, gerr = None, e
                res.transitions += 1
                if werr is not None:
                    if gerr is None:
                        res.violation(f"in-place|{opname}|reference raises", f"z {opname} {oname}: the raw array raises "
                                      f"{type(werr).__name__} but the signal accepted it [{sub}]", case, sub)
                    continue
                if gerr is not None:
                    res.violation(f"in-place|{opname}|raised", f"z {opname} {oname}: {type(gerr).__name__}: {gerr} [{sub}]", case, sub)
                    continue
                if r is not zz or not values_equal(zz.data, rref):
                    res.violation(f"in-place|{opname}|values", f"z {opname} {oname} differs from the same statement on the raw array "
                                  f"[{sub}]", case, sub)
        res.hits["in-place with scaled dimensionless Quantity"] += 1
        # result of an out-of-place ufunc, then modified in place: the operand must not follow
        for uf in (np.conjugate, np.positive, np.negative, np.absolute):
            a0 = make_sig(cls, dt, be)
            keep = np.array(materialise(a0.data))
            try:
                b0 = uf(a0)
                b0 *= 3
                np.add(b0, 1, out=b0)
            except Exception:
                continue
            res.transitions += 3
            if not values_equal(a0.data, keep):
                res.violation("history|operand follows its result", f"b = {uf.__name__}(a); b *= 3 changed a", case, {"ufunc": uf.__name__})
        res.hits["result modified in place, operand unchanged"] += 1
    # ---- refused: methods, matmul
    z = make_sig(cls, dt, be)
    for what, fn in (("reduce", lambda: np.add.reduce(z)), ("reduce axis=1", lambda: np.add.reduce(z, axis=1)),
                     ("accumulate", lambda: np.add.accumulate(z)), ("reduceat", lambda: np.add.reduceat(z, [0, 2])),
                     ("outer", lambda: np.multiply.outer(z, z)), ("at", lambda: np.add.at(z, [0], 1)),
                     ("matmul", lambda: np.matmul(z, z)), ("@", lambda: z @ z), ("r@", lambda: np.ones((2, 4)) @ z),
                     ("np.sum", lambda: np.sum(z)), ("maximum.reduce", lambda: np.maximum.reduce(z)),
                     # the other generalized ufuncs contract an axis too (here: the time axis)
                     ("vecdot axis=0", lambda: np.vecdot(z, z, axis=0)), ("vecdot", lambda: np.vecdot(z, z)),
                     ("vecmat", lambda: np.vecmat(np.ones(len(z)), z)), ("matvec", lambda: np.matvec(z, np.ones(z.shape[-1])))):
        if what in ("vecdot", "vecdot axis=0", "vecmat", "matvec") and (z.ndim < 2 or not hasattr(np, what.split()[0])):
            continue
        res.transitions += 1
        res.state((cls, dt, be, "refuse", what))
        try:
            r = fn()
        except TypeError:
            res.hits["refused with TypeError"] += 1
            continue
        except Exception as e:
            res.violation(f"refuse|{what}|wrong exception", f"{type(e).__name__}: {e} (TypeError expected)", case, {"what": what})
            continue
        res.violation(f"refuse|{what}|accepted", f"{what} returned {r!r} instead of being refused", case, {"what": what})
    # ---- array conversion (and conversion / in-place write / conversion again)
    z = make_sig(cls, dt, be)
    ref = materialise(z.data)
    for dtype in (None, "float32", "complex128"):
        for how in ("asarray", "array", "array copy=True"):
            sub = {"conv": how, "dtype": dtype}
            res.state((cls, dt, be, "conv", how, dtype))
            try:
                want = np.asarray(ref, dtype=dtype) if how == "asarray" else np.array(ref, dtype=dtype, copy=True)
                werr = None
            except Exception as e:
                werr = e
            try:
                if how == "asarray":
                    got = np.asarray(z, dtype=dtype)
                elif how == "array":
                    got = np.array(z, dtype=dtype)
                else:
                    got = np.array(z, dtype=dtype, copy=True)
                gerr = None
            except Exception as e:
                got, gerr = None, e
            res.transitions += 1
            if werr is not None:
                if gerr is None:
                    res.violation("convert|reference raises", f"{how}({dtype}) [{sub}]", case, sub)
                continue
            if gerr is not None:
                res.violation("convert|raised", f"np.{how}(z, dtype={dtype}): {type(gerr).__name__}: {gerr}", case, sub)
                continue
            if not isinstance(got, np.ndarray) or got.dtype != want.dtype or not values_equal(got, want):
                res.violation("convert|values", f"np.{how}(z, dtype={dtype}) -> {type(got).__name__} {getattr(got, 'dtype', None)}", case, sub)
            if how != "asarray" and be == "numpy" and dtype is None and np.shares_memory(got, z.data):
                res.violation("convert|copy shares memory", f"np.{how} returned a view of the signal's buffer", case, sub)
            res.hits["array conversion"] += 1
    if kind != "b":
        zz = make_sig(cls, dt, be)
        a0 = np.asarray(zz)
        zz += 1
        a1 = np.asarray(zz)
        res.transitions += 3
        if not values_equal(a1, materialise(zz.data)) or not values_equal(a1, (materialise(make_sig(cls, dt, be).data) + 1).astype(dt)):
            res.violation("convert|stale after in-place write", "np.asarray(z) after 'z += 1' does not show the written values", case, None)
        res.hits["conversion, in-place write, conversion"] += 1
    res.sample({"variant": [cls, dt], "backend": be, "forms": ["operators", "out=", "in-place chains", "methods refused", "asarray"]}, 1)


def check_case(case):
    res = report.Result()
    {"ufuncs": ufuncs_case, "forms": forms_case}[case["kind"]](case, res)
    return res


def main(argv=None):
    return report.run_check(
        PID, gen_cases=gen_cases, check_case=check_case, describe=describe,
        required_hits=["reference raises: signal call raises too", "result dtype not admitted -> ValueError", "two outputs",
                       "python float/complex scalar with integer or bool signal", "signals of two classes", "operators",
                       "out= returns the same object", "two-output out= tuple", "in-place chains", "zero-length out= target", "masked-array data", "in-place with scaled dimensionless Quantity", "result modified in place, operand unchanged", "ufunc keyword arguments", "refused with TypeError",
                       "array conversion", "conversion, in-place write, conversion", "length-1 labelled axis stretched by broadcasting"],
        assumptions=["for Dask data an error may surface at compute time"],
        argv=argv, chunksize=1)


if __name__ == "__main__":
    sys.exit(main())
