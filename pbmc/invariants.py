"""Class-contract checker (C16), callable as a monitor on any signal object."""
import numpy as np
import astropy.units as u
from astropy.time import Time
import dask.array as da

from . import bind_repo

pb = bind_repo()

REQ_NDIM = {"Signal": 1, "RadioSignal": 2, "IntensitySignal": 2, "FullStokesSignal": 3, "BasebandSignal": 2,
            "DualPolarizationSignal": 3}
FIXED = {"FullStokesSignal": (2, 4), "DualPolarizationSignal": (2, 2)}
DTYPES = {"IntensitySignal": (np.float64, np.float32), "FullStokesSignal": (np.float64, np.float32),
          "BasebandSignal": (np.complex128, np.complex64), "DualPolarizationSignal": (np.complex128, np.complex64)}
CLASSES = list(REQ_NDIM)


def is_freq_scalar(q, positive):
    try:
        if not isinstance(q, u.Quantity) or not q.isscalar:
            return False
        # a frequency unit proper (not a logarithmic one, not a length admitted by an ambient spectral equivalency)
        if not isinstance(q.unit, u.UnitBase) or q.unit.physical_type != "frequency":
            return False
        v = q.to_value(u.Hz)
        return bool(np.isfinite(v)) and (v > 0 or not positive)
    except Exception:
        return False


def check(sig, created=True):
    """Return a list of (code, message) contract breaches of one signal object."""
    out = []
    name = type(sig).__name__
    if name not in REQ_NDIM or type(sig) is not getattr(pb, name):
        return [("class", f"unknown signal class {type(sig)!r}")]
    d = sig.data
    if not isinstance(d, (np.ndarray, da.Array)):
        out.append(("container", f"data container {type(d).__name__}"))
    shape = tuple(d.shape)
    if len(shape) < REQ_NDIM[name]:
        out.append(("ndim", f"{name} with shape {shape}"))
    if name in FIXED and len(shape) > FIXED[name][0] and shape[FIXED[name][0]] != FIXED[name][1]:
        out.append(("fixed axis", f"{name} with shape {shape}"))
    if int(np.prod(shape[1:])) == 0:
        out.append(("empty sample shape", f"{name} with shape {shape}"))
    if name in DTYPES and (d.dtype not in [np.dtype(t) for t in DTYPES[name]] or not d.dtype.isnative):
        out.append(("dtype", f"{name} with dtype {d.dtype!r}"))
    if not is_freq_scalar(sig.sample_rate, True):
        out.append(("sample_rate", f"{sig.sample_rate!r}"))
    st = sig.start_time
    if st is not None and not (isinstance(st, Time) and st.isscalar):
        out.append(("start_time", f"{st!r}"))
    if sig.meta is not None and type(sig.meta) is not dict:
        out.append(("meta", f"{type(sig.meta).__name__}"))
    if isinstance(sig, pb.RadioSignal):
        if not is_freq_scalar(sig.chan_bw, True):
            out.append(("chan_bw", f"{sig.chan_bw!r}"))
        if not is_freq_scalar(sig.center_freq, False):
            out.append(("center_freq", f"{sig.center_freq!r}"))
        if sig.freq_align not in ("bottom", "center", "top"):
            out.append(("freq_align", f"{sig.freq_align!r}"))
        elif len(shape) > 1 and shape[1] % 2 and sig.freq_align != "center":
            out.append(("freq_align odd", f"odd nchan {shape[1]} with {sig.freq_align!r}"))
    if isinstance(sig, pb.BasebandSignal) and created:
        try:
            if not u.isclose(sig.chan_bw, sig.sample_rate, rtol=1e-14):
                out.append(("baseband chan_bw != sample_rate", f"{sig.chan_bw!r} vs {sig.sample_rate!r}"))
        except Exception as e:
            out.append(("baseband chan_bw", repr(e)))
    if isinstance(sig, pb.DualPolarizationSignal) and sig.pol_type not in ("linear", "circular"):
        out.append(("pol_type", f"{sig.pol_type!r}"))
    return out


ATTRS = ("sample_rate", "start_time", "meta", "center_freq", "chan_bw", "freq_align", "pol_type")


def attrs_equal(a, b):
    """None if every public attribute (and type, shape, dtype) of a and b is equal, else a description."""
    if type(a) is not type(b):
        return f"type {type(a).__name__} vs {type(b).__name__}"
    if tuple(a.shape) != tuple(b.shape) or a.dtype != b.dtype:
        return f"shape/dtype {a.shape}/{a.dtype} vs {b.shape}/{b.dtype}"
    for k in ATTRS:
        if hasattr(a, k) != hasattr(b, k):
            return f"attribute {k} missing"
        if hasattr(a, k):
            x, y = getattr(a, k), getattr(b, k)
            if k == "start_time":
                if (x is None) != (y is None) or (x is not None and (x.jd1 != y.jd1 or x.jd2 != y.jd2)):
                    return f"start_time {x!r} vs {y!r}"
            elif k == "meta":
                if x != y:
                    return f"meta {x!r} vs {y!r}"
            elif isinstance(x, u.Quantity) or isinstance(y, u.Quantity):
                if not (isinstance(x, u.Quantity) and isinstance(y, u.Quantity)) or x.unit != y.unit or x.value != y.value:
                    return f"{k} {x!r} vs {y!r}"
            elif x != y:
                return f"{k} {x!r} vs {y!r}"
    return None
