"""Exact rational views of the floating-point representations pulsarbat uses."""
from fractions import Fraction as F
import math

import numpy as np
import astropy.units as u
from astropy.time import Time

ULP_T = F(1, 2 ** 52)          # one "Time ulp": 2^-52 day ~ 19 ps
DAY = 86400


def fr(x):
    """Exact Fraction of a Python/NumPy real scalar."""
    if isinstance(x, F):
        return x
    if isinstance(x, (int, np.integer)):
        return F(int(x))
    return F(float(x))


def time_days(t):
    """Exact value jd1 + jd2 (days) of a scalar astropy Time."""
    return F(float(t.jd1)) + F(float(t.jd2))


def time_days_tai(t):
    """Exact jd1+jd2 in the TAI scale (what Time differences use)."""
    tt = t.tai
    return F(float(tt.jd1)) + F(float(tt.jd2))


_SI_PREFIX_SCALE = {}


def unit_scale(unit, base):
    """Exact rational scale of ``unit`` relative to ``base`` (both astropy units).

    astropy scales such as 1e6 (MHz->Hz) or 0.001 are decimal; recover the
    exact decimal through repr so that e.g. kHz -> 1000 exactly and
    ms -> 1/1000 exactly (not the nearest double).
    """
    key = (str(unit), str(base))
    if key not in _SI_PREFIX_SCALE:
        s = unit.to(base)
        _SI_PREFIX_SCALE[key] = F(repr(float(s)))
    return _SI_PREFIX_SCALE[key]


def q_exact(q, base):
    """Exact value of a scalar Quantity in ``base`` units: F(value)*decimal scale."""
    return fr(q.value) * unit_scale(q.unit, base)


def hz(q):
    return q_exact(q, u.Hz)


def sec(q):
    return q_exact(q, u.s)


def ulp(x):
    """ulp of a float64 magnitude (as Fraction)."""
    x = abs(float(x))
    if x == 0:
        return F(5e-324)
    return F(math.ulp(x))


def round_half_even(x):
    """Round a Fraction to nearest integer, ties to even (numpy .round())."""
    fl = math.floor(x)
    d = x - fl
    if d < F(1, 2):
        return fl
    if d > F(1, 2):
        return fl + 1
    return fl if fl % 2 == 0 else fl + 1


def ceil(x):
    return math.ceil(x)


def floor(x):
    return math.floor(x)


def phase_exact(p):
    """Exact (value, imaginary) of a scalar Phase element: F(int)+F(frac)."""
    v = np.asarray(p).view(np.ndarray)
    return F(float(v["int"])) + F(float(v["frac"]))


def phase_parts(p):
    v = np.asarray(p).view(np.ndarray)
    return v["int"], v["frac"]


def make_time(iso_or_mjd_pair):
    """Construct the Time objects of the alphabets in one place."""
    if isinstance(iso_or_mjd_pair, str):
        return Time(iso_or_mjd_pair, format="isot", scale="utc", precision=9)
    a, b = iso_or_mjd_pair
    return Time(a, b, format="jd", scale="utc", precision=9)
