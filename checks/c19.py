"""C19 -- real_to_complex is the exact analytic-baseband conversion along any axis.

Enumerated: N in 0..16 (33 thorough) x EVERY vector of {-1,0,1}^N for N <= 7 (full basis + all pairwise sums
above) x rank 1..3 x every axis (negative too) x real dtypes; complex input refused.
Oracle: the definition evaluated with long-double DFT matrices.
"""
import itertools
import sys
import math

import numpy as np

from pbmc import bind_repo, report
from pbmc.oracles import dft

pb = bind_repo()
PID = "C19"

DTYPES = ["bool", "int8", "uint8", "int16", "uint16", "int32", "int64", "float16", "float32", "float64", "longdouble", ">f4", ">f8", ">i2", ">f2"]
BOUNDS = {"quick": dict(Nmax=16, full=7), "thorough": dict(Nmax=33, full=9)}
LAYOUTS = [(1, 0), (1, -1), (2, 0), (2, 1), (2, -1), (2, -2), (3, 0), (3, 1), (3, 2), (3, -1), (3, -2), (3, -3)]


def describe(tier):
    b = BOUNDS[tier]
    return {
        "bounds": {"N": [0, b["Nmax"]], "all {-1,0,1}^N vectors for N <=": b["full"], "dtypes": DTYPES,
                   "(rank, axis)": LAYOUTS},
        "alphabet": ["real_to_complex(x, axis)", "complex input -> ValueError", "tone at w -> w - N/4", "linearity"],
        "rule": "state = (N, dtype, rank, axis, input vector); expected = rows 2m of IDFT(h . DFT x) times (-1)^m with analytic "
                "weights h = 1,2,..,2,(1|2),0.. in long double; budget 32 eps(out dtype) max|x|",
    }


def gen_cases(tier, seed):
    b = BOUNDS[tier]
    for N in range(0, b["Nmax"] + 1):
        for dt in DTYPES:
            yield {"N": N, "dtype": dt, "full": b["full"]}
    for N in (8, 9):
        for dt in ("float32", "float64", "int16"):
            yield {"kind": "sched", "N": N, "dtype": dt, "bound": 1 if tier == "quick" else 2}
    for N in (4096, 4099, 131072) if tier == "quick" else (4096, 4099, 65537, 131072, 1000003):
        for dt in ("float32", "float64", "int16"):
            yield {"kind": "long", "N": N, "dtype": dt}


_R = {}


def oracle_matrix(N):
    if N not in _R:
        M = (N + 1) // 2
        if N == 0:
            _R[N] = np.zeros((0, 0), dft.CLD)
            return _R[N]
        h = np.zeros(N, dft.LD)
        h[0] = 1
        for k in range(1, N):
            if 2 * k < N:
                h[k] = 2
            elif 2 * k == N:
                h[k] = 1
        A = (dft.dft_matrix(N, +1) * h[None, :]) @ dft.dft_matrix(N) / dft.LD(N)
        rows = A[0::2][:M]
        sign = np.array([(-1) ** m for m in range(M)], dft.LD)
        _R[N] = rows * sign[:, None]
    return _R[N]


def vectors(N, full, dtype):
    """Input vectors as rows (V x N), values valid for the dtype."""
    kind = np.dtype(dtype).kind
    lo = 0 if kind in "bu" else -1
    vals = [lo, 0, 1] if lo else [0, 1]
    if N == 0:
        return np.zeros((1, 0))
    if N <= full:
        V = np.array(list(itertools.product(sorted(set(vals)), repeat=N)), dtype=float).reshape(-1, N)
    else:
        eye = np.eye(N)
        rows = [eye[i] for i in range(N)] + [eye[i] + eye[j] for i in range(N) for j in range(i + 1, N)]
        if lo:
            rows += [eye[i] - eye[j] for i in range(N) for j in range(i + 1, N)] + [-eye[i] for i in range(N)]
        rows.append(np.ones(N))
        rows.append(np.array([(-1.0) ** n if lo else n % 2 for n in range(N)]))
        V = np.array(rows)
    return V


def check_case(case):
    res = report.Result()
    N, dt = case["N"], np.dtype(case["dtype"])
    f = pb.utils.real_to_complex
    want_dtype = np.complex64 if (dt.kind == "f" and dt.itemsize == 4) else np.complex128      # (float32 of either byte order)
    R = oracle_matrix(N)
    V = vectors(N, case["full"], dt)
    nv = len(V)
    E = (R @ V.T.astype(dft.CLD)).T if N else np.zeros((nv, 0), dft.CLD)       # nv x M
    M = (N + 1) // 2
    # accuracy is demanded at the precision the input itself can carry: half/single inputs -> single precision
    # (half precision comes back as complex128: its values are exact doubles, so the result is held to double precision)
    eps = float(np.finfo(np.float32).eps) if (dt.kind == "f" and dt.itemsize == 4) else float(np.finfo(np.float64).eps)
    # FFT round-off grows with the coherent sum of the input (DC bin of a constant vector is N): budget 8 eps N max|x|
    tol = 8 * eps * max(N, 4) * max(1.0, float(np.max(np.abs(V))) if V.size else 1.0)
    for rank, axis in LAYOUTS:
        ax = axis % rank
        # batch of vectors laid out so that `ax` is the converted axis
        if rank == 1:
            inputs = [V[i] for i in ([0, nv // 2, nv - 1] if nv > 3 else range(nv))] if nv else [np.zeros(0)]
            exps = [E[i] for i in ([0, nv // 2, nv - 1] if nv > 3 else range(nv))] if nv else [np.zeros(0)]
        else:
            if rank == 2:
                arr = V if ax == 1 else V.T                      # (nv, N) or (N, nv)
                exp = E if ax == 1 else E.T
            else:
                # rank 3: duplicate the batch along a third axis with a factor so that element mix-ups show
                fac = np.array([1.0, 0.0]) if dt.kind in "bu" else np.array([1.0, -1.0])
                order = {0: (2, 0, 1), 1: (0, 2, 1), 2: (0, 1, 2)}[ax]     # where (nv, 2, N) axes go
                base = V[:, None, :] * fac[None, :, None]                     # (nv, 2, N)
                bexp = E[:, None, :] * fac[None, :, None].astype(dft.LD)
                arr = np.transpose(base, np.argsort(order)) if False else np.moveaxis(base, 2, ax)
                exp = np.moveaxis(bexp, 2, ax)
            inputs, exps = [arr], [exp]
        layouts_mem = ["C"] if rank == 1 else ["C", "F", "strided"]
        for (x, e), mem in [(pair, m) for pair in zip(inputs, exps) for m in layouts_mem]:
            xin = np.ascontiguousarray(x).astype(dt)
            if mem == "F":
                xin = np.asfortranarray(xin)
            elif mem == "strided":
                big = np.zeros(tuple(2 * s_ for s_ in xin.shape), dtype=xin.dtype)
                big[tuple(slice(None, None, 2) for _ in xin.shape)] = xin
                xin = big[tuple(slice(None, None, 2) for _ in xin.shape)]      # non-contiguous view with the same content
                res.hits["non-contiguous input"] += 1
            sub = {"rank": rank, "axis": axis, "shape": list(xin.shape), "memory": mem}
            try:
                out = f(xin, axis=axis)
            except Exception as ex:
                res.transitions += 1
                res.violation("real_to_complex|raised", f"{type(ex).__name__}: {ex} [{sub}]", case, sub)
                continue
            res.transitions += 1
            res.traces += 1
            res.state((N, str(dt), rank, axis, xin.shape, mem))
            want_shape = list(xin.shape)
            want_shape[ax] = M
            if out.dtype != want_dtype:
                res.violation("real_to_complex|dtype", f"{dt} input along axis {axis} (rank {rank}) gave {out.dtype}, expected "
                              f"{np.dtype(want_dtype)} [{sub}]", case, sub)
            if list(out.shape) != want_shape:
                res.violation("real_to_complex|shape", f"shape {out.shape}, expected {want_shape} [{sub}]", case, sub)
                continue
            if out.size:
                err = float(np.max(np.abs(out.astype(dft.CLD) - e)))
                if not res.ratio("value err / (8 eps N max|x|)", err, tol):
                    res.violation("real_to_complex|values", f"max |out - definition| = {err:.3g} (budget {tol:.3g}) [{sub}]",
                                  case, sub)
                # (-1)^m Re out[m] == x[2m]
                o = np.moveaxis(out, ax, -1)
                xi = np.moveaxis(xin.astype(np.float64), ax, -1)
                sgn = np.array([(-1.0) ** m for m in range(M)])
                e2 = float(np.max(np.abs(o.real * sgn - xi[..., 0::2])))
                if not res.ratio("real-part identity err / budget", e2, tol):
                    res.violation("real_to_complex|real part", f"(-1)^m Re(out[m]) differs from x[2m] by {e2:.3g} [{sub}]",
                                  case, sub)
            if N == 1:
                res.hits["N = 1"] += 1
            if N == 0:
                res.hits["N = 0"] += 1
            if axis < 0:
                res.hits["negative axis"] += 1
            if rank == 3 and ax == 1:
                res.hits["middle axis of rank 3"] += 1
    # another axis of length zero: the converted axis must still be decimated (shape-only)
    if N >= 1:
        for shape, axis in (((N, 0), 0), ((0, N), 1), ((3, 0, N), 2), ((N, 2, 0), 0), ((0, N, 2), -2)):
            xin = np.zeros(shape, dtype=dt)
            try:
                out = f(xin, axis=axis)
            except Exception as ex:
                res.violation("real_to_complex|empty other axis raised", f"shape {shape} axis {axis}: {type(ex).__name__}: {ex}", case,
                              {"shape": list(shape), "axis": axis})
                continue
            res.transitions += 1
            want_shape = list(shape)
            want_shape[axis % len(shape)] = M
            if list(out.shape) != want_shape or out.dtype != want_dtype:
                res.violation("real_to_complex|empty other axis shape", f"shape {shape} axis {axis}: result {out.shape} {out.dtype}, expected "
                              f"{want_shape} {np.dtype(want_dtype)}", case, {"shape": list(shape), "axis": axis})
            res.hits["zero-length other axis"] += 1
    res.states |= {hash((N, str(dt), i)) for i in range(nv)}
    # complex input refused
    for cdt in (np.complex64, np.complex128, np.clongdouble):
        # every length incl. 0 along the converted axis, other axes of length 0, every axis spelling
        for shp, ax in (((N,), 0), ((N,), -1), ((N, 2), 0), ((2, N), 1), ((2, N), -1), ((N, 0), 0), ((0, N), 1), ((0,), 0), ((0, 3), 0),
                        ((3, 0), -1)):
            res.transitions += 1
            try:
                f(np.zeros(shp, cdt), axis=ax)
                res.violation("real_to_complex|complex accepted", f"complex input {np.dtype(cdt)} of shape {shp} (axis {ax}) accepted", case,
                              {"shape": list(shp), "axis": ax, "dtype": str(np.dtype(cdt))})
            except ValueError:
                res.hits["complex refused"] += 1
                if 0 in shp:
                    res.hits["empty complex input refused"] += 1
            except Exception as ex:
                res.violation("real_to_complex|complex wrong exception", f"{type(ex).__name__}: {ex}", case, None)
    # tone at w -> w - N/4, and linearity on explicit float combinations
    if N >= 4 and N % 4 == 0 and dt.kind == "f":
        n = np.arange(N)
        for w in range(1, N // 2):
            x = np.cos(2 * np.pi * w * n / N).astype(dt)
            out = f(x)
            res.transitions += 1
            spec = np.abs(np.fft.fft(out.astype(complex))) / (N // 2)
            peak = int(np.argmax(spec))
            want = (w - N // 4) % (N // 2)
            if peak != want or spec[peak] < 0.9:
                res.violation("real_to_complex|tone", f"real tone at w={w} of N={N} landed in bin {peak} of {N // 2}, expected "
                              f"w - N/4 = {want}", case, {"w": w})
            res.hits["tone mapped"] += 1
    if N >= 2 and dt.kind == "f":
        rng = np.random.default_rng(19)
        a, b = rng.uniform(-1, 1, N).astype(dt), rng.uniform(-1, 1, N).astype(dt)
        lhs = f((0.5 * a.astype(np.float64) - 0.25 * b.astype(np.float64)).astype(np.float64))
        rhs = 0.5 * f(a.astype(np.float64)) - 0.25 * f(b.astype(np.float64))
        res.transitions += 3
        if float(np.max(np.abs(lhs - rhs))) > 64 * np.finfo(np.float64).eps:
            res.violation("real_to_complex|not linear", f"|f(ax+by) - af(x) - bf(y)| = {float(np.max(np.abs(lhs - rhs))):.3g}",
                          case, None)
    res.sample({"N": N, "dtype": str(dt), "vectors": int(nv), "layouts": len(LAYOUTS)}, 1)
    return res


def sched_case(case, res):
    """Two calls with the SAME shape and dtype on two threads: every interleaving (Python-line granularity in utils.py)."""
    from pbmc import sched_threads, REPO
    N, dt = case["N"], np.dtype(case["dtype"])
    rng = np.random.default_rng(3)
    a = rng.integers(-3, 4, size=(N, 3)).astype(dt)
    b = (rng.integers(-3, 4, size=(N, 3)) * 2 + 1).astype(dt)
    ref = (f_rtc(a), f_rtc(b))

    def make(s):
        return [lambda: f_rtc(a), lambda: f_rtc(b)]

    def check(results, s):
        ok = True
        for i in range(2):
            st, val = results.get("T%d" % i, ("exc", None))
            if st != "ok" or not np.array_equal(val, ref[i]):
                ok = False
                res.violation("real_to_complex|concurrent calls interfere", f"thread {i} returned "
                              f"{'an exception ' + repr(val) if st != 'ok' else 'a different array'} with preemptions at "
                              f"{[t[3] for t in s.trace if t[1] != 0]}", case, {"choices": [t[1] for t in s.trace]})
        return ok

    st = sched_threads.explore(make, (REPO + "/pulsarbat/utils.py",), case["bound"], check)
    res.traces += st["executions"]
    res.transitions += st["transitions"]
    for i in range(st["executions"]):
        res.state(("sched", N, str(dt), i))
    res.hits["concurrent same-shape calls explored"] += st["executions"]
    res.sample({"sched": {"N": N, "dtype": str(dt), "executions": st["executions"], "points": st["points"]}}, 1)


def f_rtc(x):
    return pb.utils.real_to_complex(x, axis=0)


_check_case_grid = check_case


def long_case(case, res):
    """Long axes (accuracy must not degrade with the sample index) and the ways of passing the axis (keyword / positional)."""
    N, dt = case["N"], np.dtype(case["dtype"])
    f = pb.utils.real_to_complex
    rng = np.random.default_rng(19)
    x = rng.uniform(-1, 1, (2, N))
    if dt.kind == "i":
        x = np.round(x * 1000)
    x = x.astype(dt)
    xd = x.astype(np.float64)
    # float64 FFT evaluation of the definition (analytic signal, mixed down by a quarter of the rate, every second sample)
    X = np.fft.fft(xd, axis=1)
    h = np.zeros(N)
    h[0] = 1
    h[1:(N + 1) // 2] = 2
    if N % 2 == 0:
        h[N // 2] = 1
    a = np.fft.ifft(X * h[None, :], axis=1)[:, 0::2]
    ref = a * np.array([(-1) ** m for m in range(a.shape[1])])[None, :]
    eps = float(np.finfo(np.float32 if dt == np.float32 else np.float64).eps)
    # + the double-precision rounding of the mixing phase pi/2 * n itself (the library evaluates exp(-i pi n / 2) in double)
    tol = 256 * eps * (1 + math.log2(N)) * float(np.max(np.abs(xd)))          # (the mixing factors 1, -i, -1, i are exact)
    outs = {"axis=1 (keyword)": lambda: f(x, axis=1), "1 (positional)": lambda: f(x, 1), "axis=-1": lambda: f(x, axis=-1),
            "transposed, default axis": lambda: f(np.ascontiguousarray(x.T)).T, "transposed, 0 (positional)": lambda: f(np.ascontiguousarray(x.T), 0).T}
    # the conversion is linear: the same data scaled by 1e-9 and 1e-12 (every sample below 1e-8) gives the scaled result
    if dt.kind == "f" and N <= 5000:
        base = np.asarray(f(x, axis=1))
        for sc in (1e-9, 2.0 ** -40, 1e-30 if dt == np.float64 else 1e-20):
            xs = (x.astype(np.float64) * sc).astype(dt)
            ys = np.asarray(f(xs, axis=1))
            res.transitions += 1
            ref_s = np.asarray(ref) * sc
            e = float(np.max(np.abs(ys - ref_s))) / sc
            if not res.ratio("scaled input err / budget", e, tol * 4 + 4 * eps):
                res.violation("real_to_complex|tiny magnitudes", f"N={N} {dt}: input scaled by {sc:g} gives a result that is not the scaled "
                              f"result (relative error {e:.3g}; all-zero output: {not ys.any()})", case, {"scale": sc})
            else:
                res.hits["tiny magnitudes"] += 1
    for nm, fn in outs.items():
        res.transitions += 1
        res.traces += 1
        res.state(("long", N, str(dt), nm))
        try:
            out = np.asarray(fn())
        except Exception as e:
            res.violation("real_to_complex|long|raised", f"{nm}: {type(e).__name__}: {e}", case, {"form": nm})
            continue
        if out.shape != ref.shape:
            res.violation("real_to_complex|long|shape", f"{nm}: shape {out.shape}, expected {ref.shape}", case, {"form": nm})
            continue
        e = float(np.max(np.abs(out - ref)))
        if not res.ratio("long-axis err / budget", e, tol):
            res.violation("real_to_complex|long|values", f"N={N} {dt} ({nm}): max |out - definition| = {e:.3g} (budget {tol:.3g}); "
                          f"the error grows with the sample index", case, {"form": nm})
            continue
        res.hits["long axis"] += 1
    res.sample({"long": N, "dtype": str(dt)}, 1)


def check_case(case):          # noqa: F811 - dispatch on the case kind
    if case.get("kind") == "long":
        res = report.Result()
        long_case(case, res)
        return res
    if case.get("kind") == "sched":
        res = report.Result()
        sched_case(case, res)
        return res
    return _check_case_grid(case)


def main(argv=None):
    return report.run_check(
        PID, gen_cases=gen_cases, check_case=check_case, describe=describe,
        required_hits=["N = 0", "N = 1", "non-contiguous input", "zero-length other axis", "concurrent same-shape calls explored", "negative axis", "middle axis of rank 3", "complex refused", "empty complex input refused", "tone mapped", "long axis", "tiny magnitudes"],
        assumptions=["budget 8 eps max(N,4) max|x| with eps = single precision for float32 input and double otherwise (also for float16 input, whose result is complex128)"],
        argv=argv)


if __name__ == "__main__":
    sys.exit(main())
