"""C08 -- polyco prediction equals the tempo formula on every entry's span.

Enumerated: generated tempo-format texts (every non-empty subset of a 4-slot TMID grid under four spacing
schemes: touching, overlapping, 0.5 ms gap, 10 min gap) x coefficient counts (not multiples of three too) x
exponent spellings x span lengths x F0 x reference phases up to 1e12; every row subset; per entry a 13-point
time grid incl. ends +-1 us; scalar / array / unsorted array calls; histories (phasepol before predictions);
plus the shipped timing.dat.
Oracle: RPHASE + 60 DT F0 + sum COEFF(i) DT^(i-1) in Fractions from the decimal strings of the text.
"""
import io
import itertools
import sys
from fractions import Fraction as F

import numpy as np
import astropy.units as u
from astropy.time import Time

from pbmc import bind_repo, report, REPO
from pbmc.exact import ULP_T
from pbmc.oracles import polyco

pb = bind_repo()
PID = "C08"

SCHEMES = ["touch", "overlap", "gap0.5ms", "gap10min", "gap60s", "gap2ms"]
CONFIGS = {
    "quick": [  # (ncoeff, spelling, span, F0, RPHASE0)
        (12, "e", 90, "641.928232294317", "146750669817.214345"),
        (2, "E", 30, "1.000000000000", "0.250000"),
        (3, "D", 120, "29.946923000000", "123456.750000"),
        (4, "d", 90, "641.928232294317", "999999999999.500000"),
        (5, "e", 30, "29.946923000000", "146750669817.214345"),
        (7, "D", 120, "1.000000000000", "123456.750000"),
        (12, "e", 90, "641.928232294317", "146754136477.999999"),
        (3, "E", 30, "29.946923000000", "999999999999.999950"),
        # reference phases below zero (entries before the reference epoch), also crossing zero within the file
        (12, "e", 90, "641.928232294317", "-146750669817.214345"),
        (3, "D", 30, "1.000000000000", "-2700.250000"),
        (5, "E", 120, "29.946923000000", "-0.750000"),
        # a single coefficient (NCOEFF = 1)
        (1, "e", 30, "641.928232294317", "146750669817.214345"),
    ],
}
CONFIGS["thorough"] = CONFIGS["quick"] + [
    (n, sp, span, f0, r) for n, sp in ((12, "D"), (5, "E"), (7, "e"), (2, "d"), (11, "e"), (8, "D"))
    for span, f0, r in ((30, "641.928232294317", "999999999999.500000"), (120, "29.946923000000", "0.250000"))]


LONG = {"quick": [(32, 360, "641.928232294317")],
        "thorough": [(32, 360, "641.928232294317"), (48, 120, "29.946923000000"), (24, 720, "218.811843796082")]}


def describe(tier):
    return {
        "bounds": {"configs (ncoeff, exponent letter, span min, F0, RPHASE0)": CONFIGS[tier], "schemes": SCHEMES,
                   "entries": "every non-empty subset of 4 TMID slots (1..4 entries)", "row subsets": "every non-empty subset of rows",
                   "times per entry": 13},
        "alphabet": ["from_polyco(text)", "p(t) scalar/array/unsorted", "p.f0(t, n) n=0,1,2", "p.phasepol(t0)", "p.time_at(phase)",
                     "p.intervals", "p[[rows]]", "mixed psr/obs/freq/span -> ValueError", "phasepol then p(t) (history)"],
        "rule": "state = (text, row subset, time, call form); predictions compared with the tempo formula in Fractions evaluated "
                "from any entry whose span contains the time; budget 1e-8 cycle + F0*86400*2^-51 (time representation)",
    }


def gen_cases(tier, seed):
    # (the heaviest cases first: the pool takes cases in this order)
    for part in ("all", "subset", "dense"):
        yield {"kind": "shipped", "tier": tier, "part": part}
    for n, span, f0 in LONG[tier]:
        yield {"kind": "long", "n": n, "span": span, "f0": f0}
    for span, count in ((15, 97), (161, 9), (90, 17)) if tier == "quick" else ((15, 97), (161, 9), (90, 17), (5, 289), (30, 49)):
        yield {"kind": "tmid_family", "span": span, "count": count}
    for ci in range(len(CONFIGS[tier])):
        for scheme in SCHEMES:
            yield {"kind": "gen", "cfg": list(CONFIGS[tier][ci]), "scheme": scheme}
    yield {"kind": "mixed"}
    yield {"kind": "layout"}
    yield {"kind": "jump"}
    yield {"kind": "baseline"}


def mjd_time(m):
    """Time (UTC) at exact MJD fraction m, built from two doubles."""
    i = int(m)
    return Time(float(i), float(m - i), format="mjd", scale="utc", precision=9)


def exact_mjd(t):
    return F(float(t.jd1)) + F(float(t.jd2)) - F(24000005, 10)


def phase_exact_of(ph):
    v = np.asarray(ph).view(np.ndarray)
    return [F(float(a)) + F(float(b)) for a, b in zip(np.atleast_1d(v["int"]).ravel(), np.atleast_1d(v["frac"]).ravel())]


def budget(f0):
    return F(1, 10 ** 8) + f0 * 86400 * F(1, 2 ** 51)


def inversion_budget(f0):
    """time_at inverts the prediction: p(time_at(ph)) - ph within 1e-8 cycle + F0 x (resolution of a Time, 2^-54 day)."""
    return F(1, 10 ** 8) + f0 * 86400 * F(1, 2 ** 54)


def check_inversion(res, case, p, ph, tb, f0, tag, sub):
    """The library's own prediction at the time handed back must be the phase asked for."""
    try:
        back = p(tb)
    except Exception as ex:
        res.violation(f"{tag}|p(time_at(ph)) raised", f"{type(ex).__name__}: {ex} [{sub}]", case, sub)
        return
    res.transitions += 1
    d = abs(phase_exact_of(back)[0] - phase_exact_of(ph)[0])
    if not res.ratio("p(time_at(ph)) - ph / budget", d, inversion_budget(f0)):
        res.violation(f"{tag}|time_at does not invert", f"p(time_at(ph)) differs from ph by {float(d):.3g} cycles (budget "
                      f"{float(inversion_budget(f0)):.3g}) [{sub}]", case, sub)
    res.hits["time_at: p(time_at(ph)) compared with ph in cycles"] += 1


def time_grid(e):
    us = F(1, 86400 * 10 ** 6)
    pts = [e.start + us, e.stop - us, e.tmid]
    for k in range(1, 10):
        pts.append(e.start + (e.stop - e.start) * F(k, 10) + us * k)
    pts.append(e.tmid - F(1, 86400))
    return pts


def containing(entries, m, margin=F(0)):
    return [e for e in entries if e.contains(m, margin)]


def check_predictor(res, case, p, entries, sub0, tag):
    """All checks of one predictor object built from `entries` (the reference rows, sorted by TMID)."""
    f0 = entries[0].f0
    tol = budget(f0)
    ivs = polyco.merged_intervals(entries)
    # ---- intervals
    try:
        got_iv = p.intervals
    except Exception as e:
        res.violation(f"{tag}|intervals raised", f"{type(e).__name__}: {e} [{sub0}]", case, sub0)
        return
    res.transitions += 1
    gi = [(exact_mjd(a), exact_mjd(b)) for a, b in got_iv]
    us = F(1, 86400 * 10 ** 6)
    if len(gi) != len(ivs) or any(abs(a - c) > us or abs(b - d) > us for (a, b), (c, d) in zip(gi, ivs)):
        res.violation(f"{tag}|intervals", f"intervals {[(float(a), float(b)) for a, b in gi]} differ from the merged spans "
                      f"{[(float(a), float(b)) for a, b in ivs]} [{sub0}]", case, sub0)
    if len(ivs) < len(entries):
        res.hits["spans merged"] += 1
    if len(ivs) > 1:
        res.hits["several disjoint intervals"] += 1

    def expect(m):
        cs = containing(entries, m)
        return [e.phase(m) for e in cs], cs

    def compare(got_phase, m, site, sub):
        wants, cs = expect(m)
        if not wants:
            return
        err = min(abs(got_phase - w) for w in wants)
        if not res.ratio("phase err / budget", err, tol):
            res.violation(f"{tag}|{site}", f"predicted phase {float(got_phase)!r} at MJD {float(m)!r}; tempo formula gives "
                          f"{[float(w) for w in wants]} (err {float(err):.3g} cycles, budget {float(tol):.3g}) [{sub}]", case, sub)

    # ---- scalar calls on every grid point of every entry
    allpts = []
    for k, e in enumerate(entries):
        for m in time_grid(e):
            t = mjd_time(m)
            me = exact_mjd(t)
            allpts.append((t, me))
            sub = dict(sub0, entry=k, mjd=float(me))
            res.state((tag, str(sub0), k, str(m)))
            try:
                ph = p(t)
            except Exception as ex:
                res.transitions += 1
                res.violation(f"{tag}|call raised in span", f"p(t) at MJD {float(me)!r} inside entry {k}: {type(ex).__name__}: {ex} "
                              f"[{sub}]", case, sub)
                continue
            res.transitions += 1
            res.traces += 1
            if type(ph) is not pb.Phase:
                res.violation(f"{tag}|call type", f"{type(ph).__name__} [{sub}]", case, sub)
                continue
            compare(phase_exact_of(ph)[0], me, "scalar prediction", sub)
            # the same instant given on another time scale / in another format must give the same prediction
            if k == 0 or len(allpts) % 5 == 0:
                for nm, tt in (("tai", t.tai), ("tt", t.tt), ("utc iso", Time(t.utc.isot, format="isot", scale="utc", precision=9))):
                    try:
                        ph2 = p(tt)
                    except Exception as ex:
                        res.violation(f"{tag}|time scale {nm} raised", f"{type(ex).__name__}: {ex} [{sub}]", case, dict(sub, scale=nm))
                        continue
                    res.transitions += 1
                    me2 = me if nm != "utc iso" else exact_mjd(tt)
                    wants2, _ = expect(me2)
                    if wants2 and min(abs(phase_exact_of(ph2)[0] - w) for w in wants2) > tol + f0 * F(2, 10 ** 9):
                        res.violation(f"{tag}|time scale", f"the instant MJD {float(me)!r} given in scale/format {nm} predicts "
                                      f"{float(phase_exact_of(ph2)[0])!r}, in UTC {float(phase_exact_of(ph)[0])!r} [{sub}]", case,
                                      dict(sub, scale=nm))
                res.hits["other time scales"] += 1
            # frequency and derivatives
            for n in (0, 1, 2):
                try:
                    fq = p.f0(t, n=n)
                except Exception as ex:
                    res.violation(f"{tag}|f0 raised", f"f0(t, {n}): {type(ex).__name__}: {ex} [{sub}]", case, sub)
                    continue
                res.transitions += 1
                gv = F(float(fq.to_value(u.cycle / u.s ** (n + 1))))
                cands = [c.deriv(me, n + 1) for c in containing(entries, me)]
                if cands and min(abs(gv - w) - (F(1, 10 ** 9) * s + F(1, 10 ** 30)) for w, s in cands) > 0:
                    res.violation(f"{tag}|f0 value", f"f0(t, n={n}) = {float(gv)!r}, exact derivative {float(cands[0][0])!r} [{sub}]",
                                  case, dict(sub, n=n))
    # ---- just after / before every span end that lies inside another span (junctions of touching or overlapping entries):
    # the entry used must be one whose span contains the time (float64 MJDs cannot tell these times from the span end)
    nsj = F(1, 86400 * 10 ** 9)
    for k, e in enumerate(entries):
        for m in (e.stop + 100 * nsj, e.stop + 300 * nsj, e.stop + 20 * nsj, e.start - 100 * nsj, e.start - 300 * nsj):
            t = mjd_time(m)
            me = exact_mjd(t)
            cs = containing(entries, me)
            if not cs or e in cs:
                continue
            sub = dict(sub0, entry=k, mjd=float(me), junction=True)
            res.transitions += 1
            try:
                ph = p(t)
                pa = p(Time([t.jd1, t.jd1], [t.jd2, t.jd2], format="jd", scale="utc", precision=9))
            except Exception as ex:
                res.violation(f"{tag}|call raised just past a junction", f"p(t) at MJD {float(me)!r}: {type(ex).__name__}: {ex} [{sub}]",
                              case, sub)
                continue
            compare(phase_exact_of(ph)[0], me, "scalar prediction just past a junction", sub)
            compare(phase_exact_of(pa)[0], me, "array prediction just past a junction", sub)
            res.hits["times within 300 ns of a junction, inside the neighbouring span only"] += 1
    # ---- array calls: sorted, reversed, interleaved (first and last element in the same entry)
    ts_sorted = sorted(allpts, key=lambda x: x[1])
    orders = {"sorted": ts_sorted, "reversed": ts_sorted[::-1]}
    if len(entries) >= 2:
        first = [x for x in allpts[:13]]
        rest = [x for x in allpts[13:]]
        orders["interleaved"] = first[:6] + rest + first[6:]
        orders["2-D"] = ts_sorted[: (len(ts_sorted) // 2) * 2]
    for oname, seq in orders.items():
        tt = Time([x[0].jd1 for x in seq], [x[0].jd2 for x in seq], format="jd", scale="utc", precision=9)
        if oname == "2-D":
            tt = tt.reshape(2, -1)
        sub = dict(sub0, order=oname)
        try:
            ph = p(tt)
            fq = p.f0(tt)
        except Exception as ex:
            res.violation(f"{tag}|array call raised", f"{oname}: {type(ex).__name__}: {ex} [{sub}]", case, sub)
            continue
        res.transitions += 2
        res.traces += 1
        if ph.shape != tt.shape:
            res.violation(f"{tag}|array shape", f"{ph.shape} vs {tt.shape} [{sub}]", case, sub)
            continue
        for g, (t, me) in zip(phase_exact_of(ph), seq):
            compare(g, me, f"array prediction ({oname})", dict(sub, mjd=float(me)))
        for g, (t, me) in zip(np.asarray(fq.to_value(u.cycle / u.s)).ravel(), seq):
            cands = [c.deriv(me, 1) for c in containing(entries, me)]
            if cands and min(abs(F(float(g)) - w) - F(1, 10 ** 9) * s for w, s in cands) > 0:
                res.violation(f"{tag}|array f0 ({oname})", f"f0 = {float(g)!r} at MJD {float(me)!r}, exact {float(cands[0][0])!r} "
                              f"[{sub}]", case, sub)
                break
        if oname == "interleaved":
            res.hits["unsorted array across entries"] += 1
    # ---- outside every span -> ValueError
    ns = F(1, 86400 * 10 ** 9)
    outs = [ivs[0][0] - F(1, 86400), ivs[-1][1] + F(1, 86400), ivs[0][0] - 3, ivs[-1][1] + 1000,
            ivs[0][0] - 100 * ns, ivs[-1][1] + 100 * ns, ivs[0][0] - 10 * ns, ivs[-1][1] + 10 * ns]
    for (a, b), (c, d) in zip(ivs, ivs[1:]):
        if c - b > 1000 * 100 * ns * 10:
            outs += [b + 100 * ns, c - 100 * ns]
    for (a, b), (c, d) in zip(ivs, ivs[1:]):
        outs.append((b + c) / 2)
    for m in outs:
        t = mjd_time(m)
        for nm, fn in (("call", lambda: p(t)), ("f0", lambda: p.f0(t)), ("phasepol", lambda: p.phasepol(t)),
                       ("array call", lambda: p(Time([t.jd1, mjd_time(entries[0].tmid).jd1], [t.jd2, mjd_time(entries[0].tmid).jd2],
                                                      format="jd", scale="utc"))),
                       # the one outside time is the LAST element of a 2 x 3 array (all others at a TMID)
                       ("2-D array call", lambda: p(Time([mjd_time(entries[0].tmid).jd1] * 5 + [t.jd1], [mjd_time(entries[0].tmid).jd2] * 5 + [t.jd2],
                                                          format="jd", scale="utc").reshape(2, 3))),
                       ("2-D array f0", lambda: p.f0(Time([mjd_time(entries[0].tmid).jd1] * 5 + [t.jd1], [mjd_time(entries[0].tmid).jd2] * 5 + [t.jd2],
                                                           format="jd", scale="utc").reshape(3, 2)))):
            res.transitions += 1
            try:
                fn()
                res.violation(f"{tag}|outside accepted|{nm}", f"{nm} at MJD {float(m)!r} outside every span returned a value "
                              f"[{sub0}]", case, dict(sub0, mjd=float(m)))
            except ValueError:
                res.hits["outside rejected"] += 1
            except Exception as ex:
                res.violation(f"{tag}|outside wrong exception|{nm}", f"{type(ex).__name__}: {ex} [{sub0}]", case, sub0)
    # ---- phasepol, then predictions again (history: phasepol must not disturb the predictor)
    for k, e in enumerate(entries):
        # (the 4th and 5th reference times are 100 ns / 400 ns after the 3rd: distinct requests, distinct answers)
        m3 = e.start + F(31, 86400)
        # (reference times just inside a power-of-two number of seconds from TMID, where the ulp of the offset changes)
        pow2 = [e.tmid + F(sg * v, 86400) for v in (F(10235, 10), F(20479, 10), F(5117, 10)) for sg in (1, -1)
                if e.start < e.tmid + F(sg * v, 86400) < e.stop]
        for m0 in [e.tmid, e.tmid + F(600, 86400), m3, m3 + F(1, 10 ** 7) / 86400, m3 + F(4, 10 ** 7) / 86400] + pow2:
            t0 = mjd_time(m0)
            me0 = exact_mjd(t0)
            sub = dict(sub0, entry=k, t0=float(me0))
            try:
                pol, ref = p.phasepol(t0)
            except Exception as ex:
                res.violation(f"{tag}|phasepol raised", f"{type(ex).__name__}: {ex} [{sub}]", case, sub)
                continue
            res.transitions += 1
            refv = phase_exact_of(ref)[0]
            p0 = float(pol(0.0))
            if not (0 <= p0 < 1):
                res.violation(f"{tag}|phasepol poly(0) not in [0,1)", f"poly(0) = {p0!r} [{sub}]", case, sub)
            for x in (0.0, 1.0, -1.0, 30.0, -30.0):
                mx = me0 + F(x) / 86400
                # the recentred polynomial is one entry's polynomial: compare with the formula of an entry containing t0
                cs = containing(entries, me0)
                if not cs:
                    continue
                got = refv + F(float(pol(x)))
                err = min(abs(got - c.phase(mx)) for c in cs)
                if not res.ratio("phasepol err / budget", err, 4 * tol):
                    res.violation(f"{tag}|phasepol value", f"phasepol(t0)(x={x}) + ref = {float(got)!r}, prediction at t0+x is "
                                  f"{float(cs[0].phase(mx))!r} [{sub}]", case, dict(sub, x=x))
                    break
            res.hits["phasepol"] += 1
            # the polynomial and reference phase handed out are the caller's: overwriting them must not reach the predictor
            try:
                if hasattr(pol, "coef") and pol.coef.flags.writeable:
                    pol.coef[...] = 0
                if isinstance(ref, np.ndarray) and ref.flags.writeable and ref.dtype.names:
                    for nm_ in ref.dtype.names:
                        np.asarray(ref[nm_])[...] = 0
            except Exception:
                pass
    try:
        iv = p.intervals
        if isinstance(iv, np.ndarray) and iv.flags.writeable:
            iv[...] = iv[...] * 0
        elif isinstance(iv, list):
            iv.clear()
    except Exception:
        pass
    for t, me in allpts[:: max(1, len(allpts) // 12)]:
        try:
            ph = p(t)
        except Exception as ex:
            res.violation(f"{tag}|call after phasepol raised", f"{type(ex).__name__}: {ex}", case, sub0)
            continue
        res.transitions += 1
        compare(phase_exact_of(ph)[0], me, "prediction after phasepol (history)", dict(sub0, mjd=float(me)))
    res.hits["history: predictions re-checked after phasepol"] += 1
    # ---- time_at inverts the prediction (schemes without discontinuities only)
    if sub0.get("scheme") in ("touch", "gap10min") or tag == "shipped":
        for k, e in enumerate(entries):
            for m in (e.tmid + F(1, 9) * (e.stop - e.tmid), e.start + F(1, 7) * (e.tmid - e.start)):
                t = mjd_time(m)
                me = exact_mjd(t)
                try:
                    ph = p(t)
                    tb = p.time_at(ph)
                except Exception as ex:
                    res.violation(f"{tag}|time_at raised", f"{type(ex).__name__}: {ex} [entry {k}]", case, dict(sub0, entry=k))
                    continue
                res.transitions += 2
                dsec = abs(exact_mjd(tb) - me) * 86400
                if not res.ratio("time_at err / 1e-7 s", dsec, F(1, 10 ** 7) + F(1, 10 ** 6) / e.f0):
                    res.violation(f"{tag}|time_at value", f"time_at(p(t)) is off by {float(dsec):.3g} s [entry {k}]", case,
                                  dict(sub0, entry=k))
                res.hits["time_at"] += 1
                check_inversion(res, case, p, ph, tb, e.f0, tag, dict(sub0, entry=k, mjd=float(me)))
                # the same inversion started from guesses in this entry, in the neighbouring entries and two entries away
                if sub0.get("scheme") == "touch" or tag == "shipped":
                    for dk in (0, -1, 1, -2, 2):
                        if not 0 <= k + dk < len(entries):
                            continue
                        g = entries[k + dk]
                        gm = g.tmid + F(1, 5) * (g.stop - g.tmid)
                        if not any(c.start < gm < c.stop for c in entries):
                            continue
                        try:
                            tb = p.time_at(ph, guess=mjd_time(gm))
                        except Exception as ex:
                            if dk and isinstance(ex, ValueError) and "outside predictor range" in str(ex):
                                # Newton's step from a distant guess may leave the tabulated range: the refusal is sound
                                res.skipped["time_at: iteration from a distant guess left the predictor range (refused)"] += 1
                                continue
                            res.violation(f"{tag}|time_at(guess) raised", f"{type(ex).__name__}: {ex} [entry {k}, guess in entry {k + dk}]",
                                          case, dict(sub0, entry=k, guess_entry=k + dk))
                            continue
                        res.transitions += 1
                        dsec = abs(exact_mjd(tb) - me) * 86400
                        if not res.ratio("time_at(guess) err / 1e-7 s", dsec, F(1, 10 ** 7) + F(1, 10 ** 6) / e.f0):
                            res.violation(f"{tag}|time_at(guess) value", f"time_at(p(t), guess in entry {k + dk}) is off by "
                                          f"{float(dsec):.3g} s [entry {k}]", case, dict(sub0, entry=k, guess_entry=k + dk))
                        if dk:
                            res.hits["time_at with a guess in another entry"] += 1
        # phases predicted a fraction of a millisecond inside the ends of every validity interval (and exactly on them)
        try:
            ivs_ = list(p.intervals)
        except Exception:
            ivs_ = []
        for a_, b_ in ivs_:
            for tt_, what in ((b_ - 1e-4 * u.s, "end - 0.1 ms"), (b_ - 1e-6 * u.s, "end - 1 us"), (a_ + 1e-5 * u.s, "start + 10 us"),
                              (a_ + 3e-4 * u.s, "start + 0.3 ms"), (a_, "start"), (b_, "end")):
                res.transitions += 2
                try:
                    ph_ = p(tt_)
                    tb_ = p.time_at(ph_)
                except Exception as ex:
                    res.violation(f"{tag}|time_at near an interval end raised", f"time_at(p({what})): {type(ex).__name__}: {ex}", case,
                                  dict(sub0, where=what))
                    break
                dsec = abs(exact_mjd(tb_) - exact_mjd(tt_)) * 86400
                if not res.ratio("time_at err / 1e-7 s", dsec, F(1, 10 ** 7) + F(1, 10 ** 6) / entries[0].f0):
                    res.violation(f"{tag}|time_at near an interval end value", f"time_at(p({what})) is off by {float(dsec):.3g} s", case,
                                  dict(sub0, where=what))
                    break
            else:
                res.hits["time_at near the ends of an interval"] += 1
        # phases outside -> ValueError
        lo = entries[0].phase(entries[0].start) - 1000
        hi = entries[-1].phase(entries[-1].stop) + 1000
        for v in (lo, hi):
            res.transitions += 1
            try:
                p.time_at(pb.Phase(float(int(v)), 0.0))
                res.violation(f"{tag}|time_at outside accepted", f"phase {float(v)!r} outside the predictor range accepted", case, sub0)
            except ValueError:
                res.hits["outside rejected"] += 1
            except Exception as ex:
                res.violation(f"{tag}|time_at outside wrong exception", f"{type(ex).__name__}: {ex}", case, sub0)


def gen_case(case, res):
    ncoeff, spelling, span, f0s, r0s = case["cfg"]
    scheme = case["scheme"]
    slots = polyco.make_entries(4, scheme, span, f0s, r0s, ncoeff, spelling)
    for mask in itertools.product([0, 1], repeat=4):
        if not any(mask):
            continue
        chosen = [e for e, m in zip(slots, mask) if m]
        order = chosen if sum(mask) % 2 else chosen[::-1]           # file order need not be chronological
        text = "".join(e.text() for e in order)
        sub0 = {"scheme": scheme, "slots": list(mask), "ncoeff": ncoeff, "span": span}
        try:
            p = pb.PhasePredictor.from_polyco(io.StringIO(text))
        except Exception as ex:
            res.transitions += 1
            res.violation("from_polyco|raised", f"{type(ex).__name__}: {ex} [{sub0}]", case, sub0)
            continue
        res.transitions += 1
        res.traces += 1
        if len(p) != len(chosen):
            res.violation("from_polyco|entries", f"{len(p)} rows parsed from {len(chosen)} entries [{sub0}]", case, sub0)
            continue
        check_predictor(res, case, p, chosen, dict(sub0, rows="all"), "generated")
        if ncoeff % 3:
            res.hits["coefficient count not a multiple of three"] += 1
        if spelling in "Dd":
            res.hits["D exponents"] += 1
        # every proper subset of rows of the full predictor
        if all(mask):
            for rows in itertools.chain.from_iterable(itertools.combinations(range(4), r) for r in (1, 2, 3)):
                try:
                    q = p[list(rows)]
                except Exception as ex:
                    res.violation("subset|raised", f"p[{list(rows)}]: {type(ex).__name__}: {ex}", case, dict(sub0, rows=list(rows)))
                    continue
                res.transitions += 1
                check_predictor(res, case, q, [chosen[i] for i in rows], dict(sub0, rows=list(rows)), "subset")
                res.hits["row subsets"] += 1
            # a subset is a set: the same rows selected in another order (reversed, rotated, p[::-1]) predict the same
            for rows, how in (((3, 1, 2, 0), "list"), ((2, 0), "list"), ((1, 3, 0), "list"), ((3, 2, 1, 0), "p[::-1]")):
                try:
                    q = p[::-1] if how == "p[::-1]" else p[list(rows)]
                except Exception as ex:
                    res.violation("subset|raised", f"p[{list(rows)}]: {type(ex).__name__}: {ex}", case, dict(sub0, rows=list(rows)))
                    continue
                res.transitions += 1
                check_predictor(res, case, q, [chosen[i] for i in sorted(rows)], dict(sub0, rows=list(rows), how=how), "subset (unordered selection)")
                res.hits["rows selected in another order"] += 1
    res.sample({"cfg": case["cfg"], "scheme": scheme, "text_head": slots[0].text().splitlines()[:2]}, 1)


def parse_file(path):
    """Independent parse of a polyco file into reference entries (decimal strings kept)."""
    toks = open(path).read().split("\n")
    lines = [l for l in toks if l.strip()]
    out, i = [], 0
    while i < len(lines):
        a = lines[i].split()
        b = lines[i + 1].split()
        nco = int(b[4])
        nl = -(-nco // 3)
        cs = " ".join(lines[i + 2:i + 2 + nl]).split()[:nco]
        out.append(polyco.Entry(a[0], a[3], b[0], b[1], b[2], int(b[3]), cs, b[5], a[4]))
        i += 2 + nl
    return out


def shipped_case(case, res):
    path = REPO + "/tests/data/timing.dat"
    entries = sorted(parse_file(path), key=lambda e: e.tmid)
    p = pb.PhasePredictor.from_polyco(path)
    res.transitions += 1
    res.traces += 1
    part = case.get("part", "all")
    if part == "all":
        check_predictor(res, case, p, entries, {"file": "timing.dat", "rows": "all"}, "shipped")
        res.hits["shipped file"] += 1
    elif part == "subset":
        q = p[[0, 1, 2, 4, 5, 6]]
        check_predictor(res, case, q, [entries[i] for i in (0, 1, 2, 4, 5, 6)], {"file": "timing.dat", "rows": [0, 1, 2, 4, 5, 6]},
                        "shipped subset")
        t_in = mjd_time(entries[3].tmid)
        empty_subsets(res, case, p, t_in, p(t_in))
    else:
        dense_time_at(res, case, p, entries, "shipped", 400 if case.get("tier") == "thorough" else 120)
    res.sample({"file": "tests/data/timing.dat", "entries": len(entries), "part": part}, 1)


def long_case(case, res):
    """Many touching entries (days of contiguous validity): junction times, and time_at late in a long merged interval."""
    n, span, f0s = case["n"], case["span"], case["f0"]
    entries = polyco.make_entries(n, "touch", span, f0s, "146750669817.214345", 5, "e")
    text = "".join(e.text() for e in entries)
    p = pb.PhasePredictor.from_polyco(io.StringIO(text))
    res.transitions += 1
    res.traces += 1
    sub0 = {"scheme": "touch", "entries": n, "span": span}
    check_predictor(res, case, p, entries, sub0, "long")
    res.hits["long contiguous file"] += 1
    res.sample({"long": case}, 1)


def tmid_family_case(case, res):
    """One-entry files on every TMID of a day's grid (and a few generic ones): time_at must invert every in-span phase.
    (An interval end whose MJD fraction is near 0.5 does not survive `end + 0 s` bit for bit in UTC.)"""
    span = case["span"]
    tmids = [F(58245) + F(j * span, 1440) for j in range(0, 1440 // span + 1)][: case["count"]]
    tmids += [F("58244.51532556104"), F("58245.50000000000"), F("58246.49999999999"), F("58245.12345678901")]
    bad = 0
    for tm in tmids:
        e = polyco.make_entries(1, "touch", span, "641.928232294317", "146750669817.214345", 3, "e", tmid0=f"{float(tm):.11f}")[0]
        p = pb.PhasePredictor.from_polyco(io.StringIO(e.text()))
        res.transitions += 1
        res.traces += 1
        for fr in (F(1, 1000), F(1, 4), F(1, 2), F(999, 1000)):
            m = e.start + fr * (e.stop - e.start)
            t = mjd_time(m)
            res.state(("tmid family", span, str(tm), str(fr)))
            sub = {"tmid": f"{float(tm):.11f}", "span": span, "fraction": float(fr)}
            try:
                ph = p(t)
                tb = p.time_at(ph)
            except Exception as ex:
                bad += 1
                if bad <= 3:
                    res.violation("tmid family|time_at raised", f"one entry, TMID {float(tm):.11f}, span {span} min: time_at(p(t)) at "
                                  f"{float(fr):.3f} of the span: {type(ex).__name__}: {ex}", case, sub)
                continue
            res.transitions += 2
            dsec = abs(exact_mjd(tb) - exact_mjd(t)) * 86400
            if dsec > F(1, 10 ** 7) + F(1, 10 ** 6) / e.f0:
                res.violation("tmid family|time_at value", f"TMID {float(tm):.11f}: off by {float(dsec):.3g} s", case, sub)
            check_inversion(res, case, p, ph, tb, e.f0, "tmid family", sub)
        # the ends themselves
        for nm, tt_ in (("start", p.intervals[0][0]), ("end", p.intervals[0][1])):
            try:
                p.time_at(p(tt_))
            except Exception as ex:
                bad += 1
                if bad <= 3:
                    res.violation("tmid family|time_at raised", f"TMID {float(tm):.11f}, span {span}: time_at(p({nm})): {type(ex).__name__}: {ex}",
                                  case, {"tmid": f"{float(tm):.11f}", "where": nm})
    res.hits["one-entry files on a day's grid of TMIDs"] += 1
    res.sample({"tmid family": case}, 1)


def dense_time_at(res, case, p, entries, tag, count):
    """time_at(p(t)) for `count` times spread over the last third of the last validity interval (every one is checked)."""
    a, b = p.intervals[-1]
    length = (b - a).to_value(u.s)
    f0 = entries[0].f0
    for i in range(count):
        x = length * (2 / 3 + (i + 0.37) / (3 * count))
        t = a + x * u.s
        res.state((tag, "dense time_at", i))
        try:
            ph = p(t)
            tb = p.time_at(ph)
        except Exception as ex:
            res.violation(f"{tag}|dense time_at raised", f"{type(ex).__name__}: {ex} at +{x!r} s", case, {"x": x})
            continue
        res.transitions += 2
        dsec = abs(exact_mjd(tb) - exact_mjd(t)) * 86400
        if not res.ratio("time_at err / 1e-7 s", dsec, F(1, 10 ** 7) + F(1, 10 ** 6) / f0):
            res.violation(f"{tag}|dense time_at value", f"time_at(p(t)) is off by {float(dsec):.3g} s at +{x!r} s", case, {"x": x})
        check_inversion(res, case, p, ph, tb, f0, tag + " dense", {"x": x})
    res.hits["time_at on a dense family late in a long interval"] += 1


def empty_subsets(res, case, p, t_in, ph_in):
    """A subset with no rows has no validity interval; every time and every phase is outside every span."""
    for how, fn in (("p[:0]", lambda: p[:0]), ("p[[]]", lambda: p[[]]), ("p[all-False mask]", lambda: p[np.zeros(len(p), dtype=bool)])):
        sub = {"subset": how}
        res.transitions += 1
        try:
            q = fn()
        except Exception as ex:
            res.skipped[f"empty subset refused at selection ({type(ex).__name__})"] += 1
            continue
        try:
            iv = q.intervals
            if len(iv) != 0:
                res.violation("empty subset|intervals", f"{how}.intervals = {iv!r}", case, sub)
        except Exception as ex:
            res.violation("empty subset|intervals raised", f"{how}.intervals: {type(ex).__name__}: {ex}", case, sub)
        for nm, call in (("call", lambda: q(t_in)), ("f0", lambda: q.f0(t_in)), ("phasepol", lambda: q.phasepol(t_in)),
                         ("time_at", lambda: q.time_at(ph_in))):
            res.transitions += 1
            try:
                call()
                res.violation(f"empty subset|{nm} accepted", f"{how}: {nm} returned a value", case, dict(sub, call=nm))
            except ValueError:
                res.hits["empty subset: everything is outside"] += 1
            except Exception as ex:
                res.violation(f"empty subset|{nm} wrong exception", f"{how}: {nm}: {type(ex).__name__}: {ex}", case, dict(sub, call=nm))


def layout_case(case, res):
    """The same entries with the line furniture text files come with: a trailing blank line, blank lines between entries, CRLF line
    ends, no final newline, trailing spaces - the predictor must be the one read from the plain text."""
    ents = polyco.make_entries(3, "touch", 90, "641.928232294317", "146750669817.214345", 5, "e")
    plain = "".join(e.text() for e in ents)
    ref = pb.PhasePredictor.from_polyco(io.StringIO(plain))
    t = mjd_time(ents[1].tmid + F(600, 86400))
    want = phase_exact_of(ref(t))[0]
    variants = {"trailing blank line": plain + "\n", "two trailing blank lines": plain + "\n\n",
                "blank line between entries": "\n".join(e.text() for e in ents), "CRLF line ends": plain.replace("\n", "\r\n"),
                "no final newline": plain.rstrip("\n"), "trailing spaces": plain.replace("\n", "   \n"),
                "leading blank line": "\n" + plain, "blank line of spaces at the end": plain + "   \n"}
    for what, text in variants.items():
        res.transitions += 1
        res.traces += 1
        res.state(("layout", what))
        try:
            q = pb.PhasePredictor.from_polyco(io.StringIO(text))
            got = phase_exact_of(q(t))[0]
        except Exception as ex:
            res.violation(f"layout|{what}|raised", f"{type(ex).__name__}: {ex}", case, {"layout": what})
            continue
        if len(q) != len(ref) or got != want:
            res.violation(f"layout|{what}|differs", f"{len(q)} entries, phase {float(got)!r} (plain text: {len(ref)} entries, {float(want)!r})",
                          case, {"layout": what})
        else:
            res.hits["text layouts"] += 1
    res.sample({"layouts": list(variants)}, 1)


def jump_case(case, res):
    """Two touching entries whose predictions differ by an upward jump J at the junction: a phase inside the jump is predicted
    by no entry anywhere on its span (ValueError, or a time that does invert it); phases just outside it are inverted."""
    zeros = ["0.00000000000000000e+00"] * 3
    for jump_str in ("0.300000", "0.000001", "0.001000", "0.000100"):
        J = F(jump_str)
        e0 = polyco.Entry("J0000+00", "58000.25000000000", "1000.000000", "100.000000000000", "ao", 90, zeros, "1400.000", "12.345000")
        r1 = F(1000) + 100 * 60 * 90 + J
        e1 = polyco.Entry("J0000+00", "58000.31250000000", f"{r1.numerator // r1.denominator}.{jump_str.split('.')[1]}",
                          "100.000000000000", "ao", 90, zeros, "1400.000", "12.345000")
        p = pb.PhasePredictor.from_polyco(io.StringIO(e0.text() + e1.text()))
        lo = e0.phase(e0.stop)                       # largest phase of entry 0
        hi = e1.phase(e1.start)                      # smallest phase of entry 1 (= lo + J)
        res.transitions += 1
        res.traces += 1
        for frac, inside in ((F(1, 2), True), (F(1, 10), True), (F(9, 10), True), (F(-1), False), (F(2), False), (F(-1000), False)):
            phv = lo + frac * J if inside else (lo + frac * J if frac < 0 else hi + (frac - 1) * J)
            ph = pb.Phase(float(phv.numerator // phv.denominator), float(phv - phv.numerator // phv.denominator))
            phx = phase_exact_of(ph)[0]
            sub = {"jump": jump_str, "where": float(frac), "inside the jump": inside}
            res.transitions += 1
            res.state(("jump", jump_str, str(frac)))
            try:
                t = p.time_at(ph)
            except ValueError:
                if inside:
                    res.hits["phase inside a junction jump refused"] += 1
                else:
                    res.violation("jump|attained phase refused", f"jump {jump_str}: phase {float(phx)!r} is predicted by an entry, "
                                  f"time_at raised ValueError", case, sub)
                continue
            except Exception as ex:
                res.violation("jump|wrong exception", f"{type(ex).__name__}: {ex}", case, sub)
                continue
            back = phase_exact_of(p(t))[0]
            if abs(back - phx) > inversion_budget(e0.f0):
                res.violation("jump|time_at does not invert", f"jump of {jump_str} cycle at the junction: time_at(phase "
                              f"{'inside' if inside else 'outside'} the jump) returned a time whose prediction is off by "
                              f"{float(abs(back - phx)):.3g} cycle (no entry predicts that phase: ValueError, or a time that inverts it)",
                              case, sub)
            elif not inside:
                res.hits["phase next to a junction jump inverted"] += 1
    res.sample({"jumps": "0.3, 1e-6, 1e-3, 1e-4 cycle"}, 1)


def baseline_case(case, res):
    """Two sessions a year (and eight years) apart in one file: times a few nanoseconds past the junction inside the LATER session
    (far from the file's first span, where seconds-since-start are coarse); and a predictor whose rows are removed / whose spans
    are changed in place after its intervals were read."""
    zeros = ["0.00000000000000000e+00"] * 3
    for gap_days in (365, 3000):
        ents = []
        for sess, d0 in enumerate((0, gap_days)):
            for k in (0, 1):
                tm = F(58000) + d0 + F(1, 4) + k * F(90, 1440)
                cs = [f"{0.1 * (2 * sess + k):.17e}"] + zeros[1:]
                r = F(1000) + 100 * 60 * (tm - F(58000) - F(1, 4)) * 1440
                ents.append(polyco.Entry("J0000+00", f"{float(tm):.11f}", f"{r.numerator // r.denominator}.000000", "100.000000000000", "ao", 90,
                                         cs, "1400.000", "12.345000"))
        p = pb.PhasePredictor.from_polyco(io.StringIO("".join(e.text() for e in ents)))
        res.transitions += 1
        res.traces += 1
        ns = F(1, 86400 * 10 ** 9)
        for sess in (0, 1):
            e0, e1 = ents[2 * sess], ents[2 * sess + 1]
            for dn in (1, 2, 10, 100, -1, -10):
                m = e0.stop + dn * ns
                t = mjd_time(m)
                me = exact_mjd(t)
                cs_ = [e for e in ents if e.contains(me)]
                if not cs_:
                    continue
                sub = {"gap_days": gap_days, "session": sess, "ns past the junction": dn}
                res.transitions += 1
                res.state(("baseline", gap_days, sess, dn))
                try:
                    got = phase_exact_of(p(t))[0]
                except Exception as ex:
                    res.violation("baseline|raised", f"{type(ex).__name__}: {ex} [{sub}]", case, sub)
                    continue
                err = min(abs(got - c.phase(me)) for c in cs_)
                if err > budget(e0.f0):
                    res.violation("baseline|entry just past a junction far from the start of the file", f"sessions {gap_days} d apart: "
                                  f"p(junction {dn:+d} ns) of session {sess} is {float(err):.3g} cycle from the formula of every entry "
                                  f"whose span contains the time", case, sub)
                else:
                    res.hits["junction times far from the start of the file"] += 1
        # the same file with an entry occurring twice, and as an unsorted subset with repeated rows: same predictions
        dup_text = "".join(e.text() for e in (ents[0], ents[1], ents[2], ents[2], ents[3]))
        for what, q in (("entry twice in the text", lambda: pb.PhasePredictor.from_polyco(io.StringIO(dup_text))),
                        ("subset with repeated rows", lambda: p[[3, 2, 2, 0, 1, 2]])):
            try:
                pq = q()
            except Exception as ex:
                res.violation("baseline|duplicated rows raised", f"{what}: {type(ex).__name__}: {ex}", case, {"what": what})
                continue
            for dn in (1, 2, 10, -1):
                m = ents[2].stop + dn * ns
                t = mjd_time(m)
                me = exact_mjd(t)
                cs_ = [e for e in ents if e.contains(me)]
                res.transitions += 1
                try:
                    got = phase_exact_of(pq(t))[0]
                    got2 = phase_exact_of(pq(Time([t.jd1, t.jd1], [t.jd2, t.jd2], format="jd", scale="utc")))[1]
                except Exception as ex:
                    res.violation("baseline|duplicated rows raised", f"{what}: {type(ex).__name__}: {ex}", case, {"what": what})
                    continue
                if cs_ and max(min(abs(g - c.phase(me)) for c in cs_) for g in (got, got2)) > budget(ents[0].f0):
                    res.violation("baseline|duplicated rows", f"{what}, sessions {gap_days} d apart: p(junction {dn:+d} ns) is not the "
                                  f"formula of an entry whose span contains the time", case, {"what": what, "dn": dn})
                else:
                    res.hits["duplicated rows"] += 1
    # the table edited in place AFTER the intervals were read
    ents = polyco.make_entries(3, "gap10min", 90, "641.928232294317", "146750669817.214345", 5, "e")
    for what, edit, keep in (("remove_row(0)", lambda q: q.remove_row(0), [1, 2]), ("remove_rows([0, 2])", lambda q: q.remove_rows([0, 2]), [1]),
                             ("no edit", lambda q: None, [0, 1, 2])):
        p = pb.PhasePredictor.from_polyco(io.StringIO("".join(e.text() for e in ents)))
        _ = (p.intervals, p(mjd_time(ents[0].tmid)))
        res.transitions += 2
        res.state(("edited", what))
        try:
            edit(p)
            iv = [(exact_mjd(a), exact_mjd(b)) for a, b in p.intervals]
        except Exception as ex:
            res.violation("edited table|raised", f"{what}: {type(ex).__name__}: {ex}", case, {"edit": what})
            continue
        want = polyco.merged_intervals([ents[i] for i in keep])
        us = F(1, 86400 * 10 ** 6)
        if len(iv) != len(want) or any(abs(a - c) > us or abs(b - d) > us for (a, b), (c, d) in zip(iv, want)):
            res.violation("edited table|stale intervals", f"after reading the intervals and then {what}: {len(iv)} interval(s), the "
                          f"remaining rows cover {len(want)}", case, {"edit": what})
            continue
        for i in range(3):
            if i in keep:
                continue
            try:
                p(mjd_time(ents[i].tmid))
                res.violation("edited table|time of a removed row accepted", f"after {what} a time inside the removed span {i} is "
                              f"still predicted", case, {"edit": what})
            except ValueError:
                res.hits["table edited in place after its intervals were read"] += 1
            except Exception as ex:
                res.violation("edited table|wrong exception", f"{type(ex).__name__}: {ex}", case, {"edit": what})
    res.sample({"baseline": "sessions 365 and 3000 days apart; rows removed in place"}, 1)


def mixed_case(case, res):
    a = polyco.make_entries(2, "touch", 90, "641.928232294317", "146750669817.214345", 12, "e")
    variants = {
        "psr": polyco.make_entries(2, "touch", 90, "641.928232294317", "146750669817.214345", 12, "e", psr="J0000+00")[1],
        "obs": polyco.make_entries(2, "touch", 90, "641.928232294317", "146750669817.214345", 12, "e", obs="gb")[1],
        "span": polyco.make_entries(2, "touch", 120, "641.928232294317", "146750669817.214345", 12, "e")[1],
    }
    fq = polyco.make_entries(2, "touch", 90, "641.928232294317", "146750669817.214345", 12, "e")[1]
    fq.freq_str = "1400.000"
    variants["freq"] = fq
    for what, other in variants.items():
        res.transitions += 1
        res.traces += 1
        res.state(("mixed", what))
        try:
            pb.PhasePredictor.from_polyco(io.StringIO(a[0].text() + other.text()))
            res.violation(f"mixed|{what} accepted", f"entries with different {what} were accepted", case, {"what": what})
        except ValueError:
            res.hits["mixed entries rejected"] += 1
        except Exception as ex:
            res.violation(f"mixed|{what} wrong exception", f"{type(ex).__name__}: {ex}", case, {"what": what})
    res.sample({"mixed": list(variants)}, 1)


def check_case(case):
    res = report.Result()
    {"gen": gen_case, "shipped": shipped_case, "mixed": mixed_case, "long": long_case, "tmid_family": tmid_family_case, "layout": layout_case, "jump": jump_case, "baseline": baseline_case}[case["kind"]](case, res)
    return res


def main(argv=None):
    return report.run_check(
        PID, gen_cases=gen_cases, check_case=check_case, describe=describe,
        required_hits=["spans merged", "several disjoint intervals", "unsorted array across entries", "outside rejected",
                       "phasepol", "history: predictions re-checked after phasepol", "time_at", "time_at with a guess in another entry", "time_at near the ends of an interval", "row subsets", "rows selected in another order",
                       "coefficient count not a multiple of three", "D exponents", "shipped file", "mixed entries rejected", "other time scales",
                       "times within 300 ns of a junction, inside the neighbouring span only", "long contiguous file",
                       "time_at: p(time_at(ph)) compared with ph in cycles", "time_at on a dense family late in a long interval",
                       "empty subset: everything is outside", "one-entry files on a day's grid of TMIDs", "text layouts", "phase inside a junction jump refused",
                       "phase next to a junction jump inverted", "junction times far from the start of the file",
                       "table edited in place after its intervals were read", "duplicated rows"],
        assumptions=["decimal strings of the text are the exact inputs; time is the exact (jd1, jd2) of the Time object; budget "
                     "1e-8 cycle + F0*86400*2^-51", "times inside a < 1 ms gap between spans and exactly on a span end are "
                     "unconstrained (grid uses ends +-1 us)", "time_at is exercised only where the prediction is continuous"],
        argv=argv, chunksize=1)


if __name__ == "__main__":
    sys.exit(main())
