"""C03 -- time_shift is a band-limited delay with exact zero-fill and no wrap-around.

Enumerated: N x dtype x sample shape x EVERY broadcastable shift-array shape x shift values (integer,
fractional, |s| >= N, mixed signs) x crop on/off x shift form (number / array / time Quantity).
Input: complete basis (e_j, and i*e_j for complex) along a trailing axis + a generic payload.
Oracle: long-double DFT delay operator per element; exact zeros on the out-of-range region.
"""
import itertools
import math
import sys
from fractions import Fraction as F

import numpy as np
import astropy.units as u
from astropy.time import Time

from pbmc import bind_repo, report, factory, history
from pbmc.exact import time_days as T, hz, ULP_T, unit_scale
from pbmc.oracles import dft

pb = bind_repo()
PID = "C03"
EPS32 = float(np.finfo(np.float32).eps)

BOUNDS = {
    "quick": dict(Ns=[1, 2, 3, 4, 5, 7, 8, 12, 13, 16],
                  dtypes=["float32", "float64", "complex64", "complex128"],
                  shapes=[(), (3,), (3, 2), (1, 2), (2, 1, 2)]),
    "thorough": dict(Ns=[1, 2, 3, 4, 5, 6, 7, 8, 9, 11, 12, 13, 16, 17, 24, 31, 32],
                     dtypes=["float32", "float64", "complex64", "complex128"],
                     shapes=[(), (3,), (3, 2), (1, 2), (2, 1, 2), (2, 3, 1)]),
}


def shift_values(N):
    vals = [1, -1, 2, -2, 0.5, -0.5, 1.5, -1.5, N - 1, -(N - 1), N, -N, N + 2, -(N + 2), 0.25, -2.75, 0, 1e19, -3e30]     # (the last two: shifts of more than 2^63 samples)
    out = []
    for v in vals:
        if v not in out:
            out.append(v)
    return out


def describe(tier):
    b = BOUNDS[tier]
    return {
        "bounds": {"N": b["Ns"], "dtypes": b["dtypes"], "sample_shapes": [list(s) for s in b["shapes"]],
                   "shift values": "0, -0.0, +-1, +-2, +-1/2, +-3/2, +-(N-1), +-N, +-(N+2), 1/4, -11/4; uniform and 7 mixed fillings (two with negative zeros)"},
        "alphabet": ["time_shift(z, scalar)", "time_shift(z, array of every broadcastable shape)",
                     "time_shift(z, time Quantity)", "crop=False/True", "too-many-dims -> ValueError"],
        "rule": "state = (N, dtype, sample shape, shift shape, filling, form, crop); one real call per state on a complete "
                "basis (determines the linear operator on every input) plus a seed-filled payload; compared per element with "
                "IDFT.diag(exp(-2 pi i s k/N)).DFT in long double, exact 0.0 demanded on the out-of-range rows",
    }


def gen_cases(tier, seed):
    b = BOUNDS[tier]
    for N in b["Ns"]:
        for dt in b["dtypes"]:
            for ss in b["shapes"]:
                yield {"N": N, "dtype": dt, "ss": list(ss), "seed": seed}
    for N in ((8192, 100003) if tier == "quick" else (8192, 30011, 100003)):
        for dt in b["dtypes"]:
            yield {"kind": "long", "N": N, "dtype": dt}
    for rate in ("100 MHz", "400 MHz", "800 MHz", "1 GHz", "3 kHz", "48 kHz", "2.5 MHz", "500 kHz", "1 Hz", "10 Hz"):
        yield {"kind": "dense_quantity", "rate": rate}


def shift_shapes(ss):
    """scalar + every prefix of the sample shape with each axis either full or length 1."""
    out = [None]
    for k in range(1, len(ss) + 1):
        for mask in itertools.product([True, False], repeat=k):
            shp = tuple(ss[i] if mask[i] else 1 for i in range(k))
            if shp not in out:
                out.append(shp)
    if not ss:
        out.append((1,))
    return out


def fillings(N, shape):
    """(name, array-or-scalar) fillings for a shift of the given shape."""
    vals = shift_values(N)
    if shape is None:
        for v in vals:
            yield f"scalar {v}", v
        return
    size = int(np.prod(shape))
    for v in vals:
        yield f"uniform {v}", np.full(shape, float(v))
    mixed = [[0.5, -2, 1.5, -0.25, N + 2, -1], [-(N - 1), 1, 0, 2.5, -0.5, 3], [1, 2, 0.25, 3, N - 1, 0.5],
             [-1, -2.75, -0.5, -N, -1.5, -3], [0, 0, 1.5, 0, -2, 0], [-0.0, 1.5, -0.0, -2, 0.0, -0.0], [2, -0.0, -0.0, -0.0, -0.0, -0.0]]
    for i, m in enumerate(mixed):
        arr = np.array([m[j % len(m)] for j in range(size)], dtype=float).reshape(shape)
        yield f"mixed{i}", arr
        if arr.ndim >= 2 and min(arr.shape[-2:]) > 1 and i < 2:
            # the same values as arrays whose memory order is not the index order
            yield f"mixed{i} (Fortran-ordered)", np.asfortranarray(arr)
            yield f"mixed{i} (transposed view)", np.ascontiguousarray(np.swapaxes(arr, -1, -2)).swapaxes(-1, -2)


def make_signal(N, dtype, ss, data, rate="8Hz"):
    dtype = np.dtype(dtype)
    kw = dict(rate_name=rate, start_name="iso", meta={"k": 1})
    if dtype.kind == "c" and len(ss) >= 1:
        if len(ss) >= 2 and ss[1] == 2:
            return factory.make("DualPolarizationSignal", data, fc=400 * u.MHz, align="bottom", pol_type="circular", **kw)
        return factory.make("BasebandSignal", data, fc=400 * u.MHz, align="top", **kw)
    if dtype.kind == "f" and len(ss) >= 1:
        return factory.make("IntensitySignal", data, fc=1.4 * u.GHz, chan_bw=1 * u.MHz, align="bottom", **kw)
    return factory.make("Signal", data, **kw)


META = ("sample_rate", "center_freq", "chan_bw", "freq_align", "pol_type", "meta")


def meta_same(a, b):
    if type(a) is not type(b) or a.dtype != b.dtype:
        return f"type/dtype {type(a).__name__}/{a.dtype} -> {type(b).__name__}/{b.dtype}"
    for k in META:
        if hasattr(a, k) and getattr(a, k) != getattr(b, k):
            return f"{k} {getattr(a, k)!r} -> {getattr(b, k)!r}"
    return None


_OPS = {}


def operator(N, s, nyq=False):
    key = (N, s, nyq)
    if key not in _OPS:
        _OPS[key] = dft.delay_operator(N, s, nyq)
    return _OPS[key]


def expected(N, s, X, is_complex):
    """List of acceptable expected outputs (long double) for input matrix X (N x B) delayed by exact s."""
    outs = []
    convs = [False, True] if (is_complex and N % 2 == 0 and s.denominator != 1) else [False]
    for nyq in convs:
        Y = operator(N, s, nyq) @ X
        if not is_complex:
            Y = Y.real
        Y = np.array(Y)
        if abs(s) >= N:
            Y[:] = 0
        elif s > 0:
            Y[:math.ceil(s)] = 0
        elif s < 0:
            Y[N - math.ceil(-s):] = 0
        outs.append(Y)
    return outs


def zero_rows(N, s):
    if s > 0:
        return slice(0, min(N, math.ceil(s)))
    if s < 0:
        return slice(max(0, N - math.ceil(-s)), N)
    return slice(0, 0)


def _readonly(a):
    a = np.array(a)
    a.setflags(write=False)
    return a


def exact_elementwise(arr_or_scalar, ss):
    """Exact shift per element of the sample shape (broadcast by the documented rule: leading axes aligned)."""
    a = np.asarray(arr_or_scalar, dtype=float)
    if a.ndim:
        a = a[(slice(None),) * a.ndim + (None,) * (len(ss) - a.ndim)]
    b = np.broadcast_to(a, ss) if ss else a.reshape(())
    out = np.empty(ss, dtype=object)
    for idx in np.ndindex(*ss):
        out[idx] = F(float(b[idx]))
    if not ss:
        out = np.array(F(float(b)), dtype=object)
    return out


def long_case(case, res):
    """Long signals and large shifts: the phase ramp must stay accurate far from the origin (float64 FFT reference)."""
    N = case["N"]
    dtype = np.dtype(case["dtype"])
    rng = np.random.default_rng(33)
    x = rng.uniform(-1, 1, (N, 2))
    if dtype.kind == "c":
        x = x + 1j * rng.uniform(-1, 1, (N, 2))
    x = x.astype(dtype)
    z = make_signal(N, dtype, (2,), x)
    f = np.fft.fftfreq(N)[:, None]
    X = np.fft.fft(x.astype(complex), axis=0)
    svs = [(sv, sv) for sv in (N // 4 + 0.5, -(N // 2 - 3), 6000.25 if N > 7000 else 60.25, np.array([N // 3, -(N // 5) + 0.75]))]
    # large shifts a few thousandths of a sample off a whole number, given as time Quantities (not "close enough" to whole)
    for sv in (1000.004, -2000.01, np.array([1500.01, -800.005]), N // 2 + 0.002):
        svs.append((sv, (sv / z.sample_rate).to(u.ms)))
        svs.append((sv, sv))
    # shifts that are exact single-precision numbers, passed AS float32 (the delay must not be degraded to ~4 digits less)
    svs += [(1000.5, np.float32(1000.5)), (np.array([1500.25, -800.5]), np.array([1500.25, -800.5], dtype=np.float32)),
            (-2047.75, np.float32(-2047.75))]
    for sv, sarg in svs:
        if isinstance(sarg, (np.float32, np.ndarray)) and getattr(sarg, "dtype", None) == np.float32:
            res.hits["long signal, float32 shift"] += 1
        out = pb.time_shift(z, sarg)
        if isinstance(sarg, u.Quantity):
            res.hits["long signal, Quantity shift slightly off a whole sample"] += 1
        res.transitions += 1
        res.traces += 1
        res.state(("long", N, str(dtype), str(sarg)))
        sarr = np.broadcast_to(np.asarray(sv, dtype=float), (2,))
        ref = np.fft.ifft(X * np.exp(-2j * np.pi * f * sarr[None, :]), axis=0)
        if dtype.kind != "c":
            ref = ref.real
        for j, s_ in enumerate(sarr):
            if s_ > 0:
                ref[:math.ceil(s_), j] = 0
            elif s_ < 0:
                ref[N - math.ceil(-s_):, j] = 0
        e = float(np.max(np.abs(np.asarray(out.data) - ref)))
        if not res.ratio("long-signal err / (64 eps32)", e, 64 * EPS32):
            res.violation("time_shift|long signal|values", f"N={N} {dtype} shift {sv}: max |out - reference| = {e:.3g} (budget "
                          f"{64 * EPS32:.3g}); phase accuracy is lost for large shifts", case, {"shift": str(sarg)})
    res.hits["long signal, large shift"] += 1
    res.sample({"long": N, "dtype": str(dtype)}, 1)
    return res


def dense_quantity_case(case, res):
    """EVERY multiple of a round time step as a Quantity shift at a round sample rate: the number of zero-filled samples (and
    the crop) is the ceiling of the EXACT product of the two doubles; only when that product is a rounding error ABOVE a whole
    sample may the library take either side."""
    rate = u.Quantity(case["rate"])
    srx = hz(rate)
    N = 700
    rng = np.random.default_rng(5)
    x = rng.uniform(1, 2, N)
    z = pb.Signal(x, sample_rate=rate, start_time=Time("2021-01-01T00:00:00", precision=9))
    step_unit = {"100 MHz": (1, u.ns), "400 MHz": (2.5, u.ns), "800 MHz": (1.25, u.ns), "1 GHz": (1, u.ns), "3 kHz": (1 / 3, u.ms),
                 "48 kHz": (125 / 6, u.us), "2.5 MHz": (0.4, u.us), "500 kHz": (2000, u.ns), "1 Hz": (1e9, u.ns),
                 "10 Hz": (0.1, u.s)}[case["rate"]]
    for k in range(1, 641):
        for sign in (1, -1):
            q = (sign * k * step_unit[0]) * step_unit[1]
            s0 = F(float(q.value)) * unit_scale(step_unit[1], u.s) * srx                   # exact shift in samples
            m = round(s0)
            near = abs(s0 - m) < F(1, 10 ** 9)
            if near and abs(s0) > abs(m):
                res.skipped["Quantity shift a rounding error ABOVE a whole sample (edge open)"] += 1
                continue
            want = abs(m) if near else math.ceil(abs(s0))
            res.transitions += 2
            res.traces += 1
            res.state(("dense", case["rate"], k, sign))
            sub = {"rate": case["rate"], "shift": str(q), "exact_samples": float(s0)}
            try:
                o = np.asarray(pb.time_shift(z, q).data)
                oc = pb.time_shift(z, q, crop=True)
            except Exception as e:
                res.violation("time_shift|dense Quantity|raised", f"{type(e).__name__}: {e} [{sub}]", case, sub)
                continue
            zeros = o[:want] if sign > 0 else o[N - want:]
            nxt = o[want] if (sign > 0 and want < N) else (o[N - want - 1] if want < N else 1.0)
            if want <= N and (np.any(zeros != 0) or (near and nxt == 0)):
                nz = int(np.sum(o == 0))
                res.violation("time_shift|dense Quantity|zero-fill count", f"shift {q} at {case['rate']} (exactly {float(s0)!r} samples): "
                              f"{nz} samples are zero, expected {min(want, N)}", case, sub)
                continue
            if len(oc) != max(0, N - want):
                res.violation("time_shift|dense Quantity|crop length", f"shift {q} at {case['rate']}: crop=True kept {len(oc)} samples, "
                              f"expected {max(0, N - want)}", case, sub)
                continue
            if near:
                res.hits["whole-sample Quantity shift with the count fixed by exact arithmetic"] += 1
    res.sample({"dense_quantity": case["rate"]}, 1)
    return res


def check_case(case):
    res = report.Result()
    if case.get("kind") == "dense_quantity":
        return dense_quantity_case(case, res)
    if case.get("kind") == "long":
        return long_case(case, res)
    N, ss = case["N"], tuple(case["ss"])
    dtype = np.dtype(case["dtype"])
    is_c = dtype.kind == "c"
    rng = np.random.default_rng(1000 + case["seed"])
    # basis block along a trailing axis
    B = 2 * N if is_c else N
    eye = np.eye(N)
    Xb = np.concatenate([eye, 1j * eye], axis=1) if is_c else eye          # N x B
    basis = np.broadcast_to(Xb.reshape((N,) + (1,) * len(ss) + (B,)), (N,) + ss + (B,)).astype(dtype)
    zb = make_signal(N, dtype, ss + (B,), np.array(basis))
    # complex container whose every sample is real (all imaginary parts exactly zero): still a complex signal
    if is_c:
        basis_r = np.broadcast_to(eye.reshape((N,) + (1,) * len(ss) + (N,)), (N,) + ss + (N,)).astype(dtype)
        zbr = make_signal(N, dtype, ss + (N,), np.array(basis_r))
    # generic payload without the trailing axis (exercises the shift.ndim == ndim-1 path)
    g = rng.uniform(-1, 1, size=(N,) + ss)
    if is_c:
        g = g + 1j * rng.uniform(-1, 1, size=(N,) + ss)
    zg = make_signal(N, dtype, ss, g.astype(dtype))
    zg_k = make_signal(N, dtype, ss, g.astype(dtype), rate="1kHz")
    zg_m = make_signal(N, dtype, ss, g.astype(dtype), rate="1MHz")
    zg_g = make_signal(N, dtype, ss, g.astype(dtype), rate="1GHz")
    Xg = np.asarray(zg.data)

    for bad_shape in [tuple(n_ + 1 if i == k_ else n_ for i, n_ in enumerate(ss[:m_])) for m_ in range(1, len(ss) + 1) for k_ in range(m_)]:
        res.transitions += 1
        try:
            o_ = pb.time_shift(zg, np.ones(bad_shape))
            res.violation("time_shift|mismatching shift shape accepted", f"shift of shape {bad_shape} on sample shape {ss}: returned "
                          f"shape {o_.shape}", case, {"shape": list(bad_shape)})
        except ValueError:
            res.hits["mismatching shift shape refused"] += 1
        except Exception as e:
            res.violation("time_shift|mismatching shift shape wrong exception", f"{type(e).__name__}: {e}", case, {"shape": list(bad_shape)})
    if N >= 4:
        history.reuse_buffer(res, case, zg, [("time_shift 1.25", lambda q: pb.time_shift(q, 1.25)),
                                             ("time_shift -2 crop", lambda q: pb.time_shift(q, -2, crop=True)),
                                             ("time_shift 0.5 ms", lambda q: pb.time_shift(q, 62.5 * u.ms))], "time_shift")
    for shp in shift_shapes(ss):
        for name, val in fillings(N, shp):
            sub = {"shift_shape": None if shp is None else list(shp), "fill": name}
            sv = exact_elementwise(val, ss)
            res.state((N, str(dtype), ss, shp, name, "number"))
            # --- basis input (trailing basis axis broadcasts under the shift)
            _basis_call(res, case, zb, Xb.astype(dft.CLD if is_c else dft.LD), val, sv, ss, sub)
            if is_c and (shp is None or name.startswith("mixed0")):
                _basis_call(res, case, zbr, eye.astype(dft.CLD), val, sv, ss, dict(sub, input="real-valued basis in a complex container"))
                res.hits["complex signal with every imaginary part zero"] += 1
            # --- generic payload, per element column
            if shp is None or len(shp) <= len(ss):
                _generic_call(res, case, zg, Xg, val, sv, ss, dict(sub, input="payload"))
            if shp is not None and np.any(np.signbit(np.asarray(val, dtype=float)) & (np.asarray(val, dtype=float) == 0)):
                res.hits["negative zero in a shift array"] += 1
            if shp is not None and any(a == 1 and b > 1 for a, b in zip(shp, ss)):
                res.hits["length-1 shift axis broadcast over a longer sample axis"] += 1
            if shp is not None and len(shp) < len(ss):
                res.hits["shift array with fewer axes than the sample shape"] += 1
        # time-Quantity form of a few fillings, in several (rate unit, shift unit) pairs: the unit need not be the reciprocal
        # of the unit the sample rate is written in.  8 Hz / 1 kHz / 1 MHz with s, ms, us.
        for zq, Xq, rate_hz in ((zg, Xg, 8.0), (zg_k, Xg, 1e3), (zg_m, Xg, 1e6), (zg_g, Xg, 1e9)):
            for name, val in list(fillings(N, shp))[4:9] + list(fillings(N, shp))[-2:]:
                if shp is not None and len(shp) > len(ss):
                    continue
                # (at 1 GHz a shift of a few samples is a NUMBER of order 1e-9 in seconds and 1e-12 in kiloseconds)
                for unit in ((u.s, u.ms, u.us) if rate_hz < 1e9 else (u.s, u.ks, u.ns)):
                    q = (np.asarray(val, dtype=float) / rate_hz * u.s).to(unit)
                    sub = {"shift_shape": None if shp is None else list(shp), "fill": name, "form": f"Quantity[{unit}]", "rate_Hz": rate_hz}
                    # exact shift in samples from the Quantity actually passed; near-integer-but-not-integer values are open
                    sc = unit_scale(unit, u.s)
                    qa = np.asarray(q.value, dtype=float)
                    if qa.ndim:
                        qa = qa[(slice(None),) * qa.ndim + (None,) * (len(ss) - qa.ndim)]
                    qb = np.broadcast_to(qa, ss) if ss else qa.reshape(())
                    sv = np.empty(ss, dtype=object) if ss else np.array(None, dtype=object)
                    ok = True
                    exact_conv = (rate_hz == 8.0 and unit is u.s)
                    for idx in (np.ndindex(*ss) if ss else [()]):
                        e0 = F(float(qb[idx])) * sc * F(rate_hz)          # exact product of the doubles actually passed
                        e = e0
                        # snap conversion round-off (1e-16 relative) of quarter-sample requests back to the intended value
                        if abs(e * 4 - round(e * 4)) < F(1, 10 ** 10):
                            e = F(round(e * 4), 4)
                        if e != 0 and e.denominator == 1 and not exact_conv and abs(e0) > abs(e):
                            # the exact shift is a hair ABOVE a whole sample: the library's rounded product may land on the whole
                            # number or above it, so ceil() may take either side.  (A hair BELOW, or exactly on it: rounding to
                            # nearest cannot carry the product past the whole number, so the count is fixed and checked.)
                            ok = False
                        sv[idx] = e
                    if not ok:
                        res.skipped["Quantity shift a rounding error ABOVE a whole sample (edge open)"] += 1
                        continue
                    res.state((N, str(dtype), ss, shp, name, "quantity", str(unit), rate_hz))
                    _generic_call(res, case, zq, Xq, q, sv, ss, sub)
                    res.hits["time Quantity shift"] += 1
                    if str(unit) != {8.0: "s", 1e3: "ms", 1e6: "us", 1e9: "ns"}[rate_hz]:
                        res.hits["Quantity unit not reciprocal to the rate unit"] += 1
    # the same shift in unusual but valid argument forms must give the same result as the plain float / ndarray form
    if N >= 2:
        base_scalar = np.asarray(pb.time_shift(zg, 1.5).data)
        for form, arg in (("np.float32", np.float32(1.5)), ("np.float64", np.float64(1.5)), ("0-d array", np.array(1.5)),
                          ("python float expression", 3 / 2)):
            try:
                got = np.asarray(pb.time_shift(zg, arg).data)
            except Exception as e:
                res.violation(f"time_shift|argument form {form} raised", f"{type(e).__name__}: {e}", case, {"form": form})
                continue
            res.transitions += 1
            if got.shape != base_scalar.shape or float(np.max(np.abs(got - base_scalar))) > 16 * EPS32:
                res.violation(f"time_shift|argument form {form}", f"shift given as {form} differs from the plain float result", case,
                              {"form": form})
        base_int = np.asarray(pb.time_shift(zg, 2.0, crop=True).data)
        for form, arg in (("python int", 2), ("np.int64", np.int64(2)), ("np.int8", np.int8(2)), ("bool-free int array 0-d", np.array(2))):
            got = pb.time_shift(zg, arg, crop=True)
            res.transitions += 1
            if got.shape != base_int.shape or not np.array_equal(np.asarray(got.data), base_int):
                res.violation(f"time_shift|argument form {form}", f"integer shift given as {form} differs from 2.0", case, {"form": form})
        if ss:
            arr = np.array([1.5, -0.75, 2.0, 0.25][:ss[0]] if ss[0] <= 4 else [1.5] * ss[0])
            if len(arr) == ss[0]:
                ref_arr = np.asarray(pb.time_shift(zg, arr).data)
                forms = [("list", list(arr)), ("tuple", tuple(arr)), ("float32 array", arr.astype(np.float32)),
                         ("read-only array", _readonly(arr)), ("non-contiguous array", np.repeat(arr, 2)[::2])]
                if float(np.max(np.abs(arr * 4 - np.round(arr * 4)))) == 0:
                    for form, arg in forms:
                        try:
                            got = np.asarray(pb.time_shift(zg, arg).data)
                        except Exception as e:
                            res.violation(f"time_shift|argument form {form} raised", f"{type(e).__name__}: {e}", case, {"form": form})
                            continue
                        res.transitions += 1
                        if got.shape != ref_arr.shape or float(np.max(np.abs(got - ref_arr))) > 16 * EPS32:
                            res.violation(f"time_shift|argument form {form}", f"per-channel shift given as {form} differs from the "
                                          f"float64 ndarray result", case, {"form": form})
        # read-only signal data
        zro = make_signal(N, dtype, ss, _readonly(np.asarray(zg.data).copy()))
        try:
            got = np.asarray(pb.time_shift(zro, 1.5).data)
            if not np.array_equal(got, base_scalar):
                res.violation("time_shift|read-only input", "result differs for a read-only input buffer", case, None)
        except Exception as e:
            res.violation("time_shift|read-only input raised", f"{type(e).__name__}: {e}", case, None)
        res.hits["argument forms"] += 1
    # too many dimensions -> ValueError
    for bad in (np.zeros((1,) * (zg.ndim)), np.ones(zg.shape)):
        try:
            pb.time_shift(zg, bad + 1.0)
            res.violation("time_shift|too many dims accepted", f"shift.ndim {bad.ndim} >= z.ndim accepted", case, None)
        except ValueError:
            res.hits["too many dims rejected"] += 1
        except Exception as e:
            res.violation("time_shift|too many dims wrong exception", f"{type(e).__name__}: {e}", case, None)
        res.transitions += 1
    # linearity on enumerated pairs (closes the 'not actually linear' loophole of basis testing)
    if N >= 2:
        x1, x2 = Xg, np.roll(Xg, 1, axis=0)[::-1]
        for s in (1.5, -2, 0.25):
            a, b = 0.5, -0.75
            za = make_signal(N, dtype, ss, (a * x1 + b * x2).astype(dtype))
            lhs = np.asarray(pb.time_shift(za, s).data).astype(complex)
            rhs = a * np.asarray(pb.time_shift(zg, s).data).astype(complex) + \
                b * np.asarray(pb.time_shift(make_signal(N, dtype, ss, x2.astype(dtype)), s).data).astype(complex)
            res.transitions += 3
            if not res.ratio("linearity err / (64 eps32)", float(np.max(np.abs(lhs - rhs))) if lhs.size else 0.0, 64 * EPS32):
                res.violation("time_shift|not linear", f"shift {s}: |T(ax+by) - aT(x) - bT(y)| = "
                              f"{float(np.max(np.abs(lhs - rhs))):.3g}", case, {"s": s})
    res.sample({"N": N, "dtype": str(dtype), "sample_shape": list(ss), "shift_shapes": [s for s in shift_shapes(ss)]}, 1)
    return res


def _basis_call(res, case, zb, Xb, val, sv, ss, sub):
    _compare(res, case, zb, Xb, val, sv, ss, dict(sub, input="basis"), basis=True)


def _generic_call(res, case, zg, Xg, val, sv, ss, sub):
    _compare(res, case, zg, Xg, val, sv, ss, sub, basis=False)


def _compare(res, case, z, X, val, sv, ss, sub, basis):
    """Adapter: present the signal to check_call as sample shape ss with an N x B matrix per element."""
    N = len(z)
    is_c = np.dtype(case["dtype"]).kind == "c"

    if basis:
        # X is the same N x B basis for every element
        check_call_block(res, case, z, lambda idx: X, val, sv, ss, sub, crop_pair=True, tol_scale=1.0, trailing=True)
    else:
        XX = np.asarray(X).astype(dft.CLD if is_c else dft.LD)
        check_call_block(res, case, z, lambda idx: XX[(slice(None),) + idx].reshape(N, 1), val, sv, ss, sub,
                         crop_pair=True, tol_scale=1.0, trailing=False)


def check_call_block(res, case, z, Xof, shift_arg, svals, ss, sub, crop_pair, tol_scale, trailing):
    N = len(z)
    is_c = np.dtype(case["dtype"]).kind == "c"
    site = "time_shift"
    try:
        out = pb.time_shift(z, shift_arg)
    except Exception as e:
        res.transitions += 1
        res.violation(f"{site}|raised", f"{type(e).__name__}: {e} [{sub}]", case, sub)
        return
    res.transitions += 1
    res.traces += 1
    allzero = all(v == 0 for v in svals.flat)
    if allzero:
        res.hits["all-zero shift (identity fast path)"] += 1
    m = meta_same(z, out)
    if m:
        res.violation(f"{site}|metadata", f"{m} [{sub}]", case, sub)
    if out.shape != z.shape:
        res.violation(f"{site}|shape", f"shape {out.shape} != {z.shape} [{sub}]", case, sub)
        return
    if (out.start_time is None) or T(out.start_time) != T(z.start_time):
        res.violation(f"{site}|start_time", f"start_time changed without crop [{sub}]", case, sub)
    y = np.asarray(out.data)
    # (double-precision data is delayed in double precision: 4096 eps64 leaves room for the FFT's own rounding)
    tol = (16 * EPS32 if np.dtype(case["dtype"]).itemsize in (4, 8) and np.dtype(case["dtype"]).name in ("float32", "complex64")
           else 4096 * float(np.finfo(np.float64).eps)) * tol_scale
    for idx in (np.ndindex(*ss) if ss else [()]):
        s = svals[idx] if ss else svals[()]
        col = y[(slice(None),) + idx]
        if col.ndim == 1:
            col = col[:, None]
        X = Xof(idx)
        zr = zero_rows(N, s)
        if zr.stop > zr.start:
            blk = col[zr]
            res.hits["zero-fill rows checked"] += 1
            if np.any(blk != 0):
                bad = np.argwhere(blk != 0)[0]
                res.violation(f"{site}|zero-fill not exact", f"element {idx} shift {float(s)}: sample "
                              f"{zr.start + int(bad[0])} should be exactly 0 but is {blk[tuple(bad)]!r} "
                              f"(wrap-around / missing zeroing) [{sub}]", case, dict(sub, element=list(idx)))
                continue
        if abs(s) >= N:
            res.hits["|s| >= N (all zero)"] += 1
        exps = [X] if allzero else expected(N, s, X, is_c)
        errs = [float(np.max(np.abs(col.astype(dft.CLD) - E))) if col.size else 0.0 for E in exps]
        e = min(errs)
        if len(exps) > 1:
            res.hits["complex even-N fractional (two Nyquist conventions accepted)"] += 1
        if not res.ratio("value err / (16 eps32 max|x|)", e, tol):
            res.violation(f"{site}|values", f"element {idx} shift {float(s)}: max |out - DFT-delay oracle| = {e:.3g} "
                          f"(budget {tol:.3g}) [{sub}]", case, dict(sub, element=list(idx)))
        res.outcome((case["N"], str(s)))
    if crop_pair and not allzero:
        flat = [svals[idx] for idx in np.ndindex(*ss)] if ss else [svals[()]]
        front = max(0, max(math.ceil(v) for v in flat))
        back = max(0, max(math.ceil(-v) for v in flat))
        crop_form = (True, np.True_, 1, np.bool_(True))[(front + 2 * back + len(flat)) % 4]      # every truthy spelling of crop
        sub = dict(sub, crop=repr(crop_form))
        try:
            oc = pb.time_shift(z, shift_arg, crop=crop_form)
        except Exception as e:
            res.transitions += 1
            res.violation(f"{site}|crop raised", f"{type(e).__name__}: {e} [{sub}]", case, sub)
            return
        res.transitions += 1
        res.traces += 1
        keep = max(0, N - front - back)
        if len(oc) != keep:
            res.violation(f"{site}|crop length", f"crop=True kept {len(oc)} samples, expected {keep} (front {front}, back "
                          f"{back}) [{sub}]", case, sub)
            return
        if keep == 0:
            res.hits["crop to empty"] += 1
        want = y[front:front + keep]
        got = np.asarray(oc.data)
        if got.shape != want.shape or not np.array_equal(got, want):
            res.violation(f"{site}|crop data", f"crop=True result is not the crop=False result with {front} leading / "
                          f"{back} trailing samples removed [{sub}]", case, sub)
        m = meta_same(z, oc)
        if m:
            res.violation(f"{site}|crop metadata", f"{m} [{sub}]", case, sub)
        if keep:
            srx = hz(z.sample_rate)
            d = T(oc.start_time) - T(z.start_time) - F(front) / srx / 86400
            if not res.ratio("crop start_time err / budget", abs(d), 2 * ULP_T + F(front, 2 ** 50) / srx / 86400):
                res.violation(f"{site}|crop start_time", f"start_time advanced by "
                              f"{float((T(oc.start_time) - T(z.start_time)) * 86400 * srx):.6g} samples, expected {front} "
                              f"[{sub}]", case, sub)
        if front and back:
            res.hits["mixed-sign crop"] += 1


def main(argv=None):
    return report.run_check(
        PID, gen_cases=gen_cases, check_case=check_case, describe=describe,
        required_hits=["buffer overwritten between calls", "mismatching shift shape refused", "zero-fill rows checked", "length-1 shift axis broadcast over a longer sample axis",
                       "shift array with fewer axes than the sample shape", "|s| >= N (all zero)", "crop to empty",
                       "mixed-sign crop", "time Quantity shift", "Quantity unit not reciprocal to the rate unit", "negative zero in a shift array", "argument forms", "long signal, large shift", "long signal, Quantity shift slightly off a whole sample", "long signal, float32 shift", "whole-sample Quantity shift with the count fixed by exact arithmetic", "too many dims rejected",
                       "complex even-N fractional (two Nyquist conventions accepted)",
                       "all-zero shift (identity fast path)", "complex signal with every imaginary part zero"],
        assumptions=["value budget 16*eps32*max|x| for single-precision data, 4096*eps64*max|x| for double-precision data",
                     "non-zero |s| < 1e-8 is outside the alphabet (library treats it as identity)",
                     "Nyquist-bin phase convention for complex even-N fractional shifts is left open (both accepted)"],
        argv=argv)


if __name__ == "__main__":
    sys.exit(main())
