#!/bin/sh
# usage: run_check.sh <cNN> <quick|thorough> [extra args]
# Runs one property check of /verif against the working tree of $PULSARBAT_REPO (default /repo).
cd "$(dirname "$0")" || exit 2
mod="$1"; tier="$2"; shift 2
export PULSARBAT_REPO="${PULSARBAT_REPO:-/repo}"
export PULSARBAT_VERIF=1
export PYTHONPATH="$PULSARBAT_REPO:$(pwd)"
export PYTHONHASHSEED=0
export PYTHONDONTWRITEBYTECODE=1
export OMP_NUM_THREADS=1 OPENBLAS_NUM_THREADS=1 MKL_NUM_THREADS=1
export VERIF_SEED="${VERIF_SEED:-0}"
exec /venv/bin/python -W ignore -m "checks.$mod" --tier "$tier" "$@"
