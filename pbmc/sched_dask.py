"""Controlled Dask scheduler: executes the (optimised) task graph one task at a time in an order the explorer
chooses, and deviation-bounded exhaustive exploration of those orders.

Passed as ``scheduler=`` to ``compute``.  Uses Dask's own graph conversion and state bookkeeping
(dask.local.start_state_from_dask / finish_task) so that the set of *ready* tasks at each step is exactly what
Dask's local schedulers see; choice 0 is the task Dask's ordering would run next.
"""
from dask.core import flatten
from dask.local import finish_task, nested_get, start_state_from_dask
from dask.order import order

try:
    from dask._task_spec import convert_legacy_graph
except Exception:      # pragma: no cover
    from dask.local import convert_legacy_graph


def controlled_get(chooser, log=None):
    """Return a dask `get` that asks chooser(n_ready) which ready task (in Dask's priority order) runs next."""

    def get(dsk, keys, **kwargs):
        if not isinstance(dsk, dict):
            dsk = dict(dsk.__dask_graph__()) if hasattr(dsk, "__dask_graph__") else dict(dsk)
        dsk = convert_legacy_graph(dict(dsk))
        result_flat = set(flatten(keys)) if isinstance(keys, list) else {keys}
        keyorder = order(dsk)
        state = start_state_from_dask(dsk, keys=set(result_flat), sortkey=keyorder.get)
        while state["ready"] or state["waiting"]:
            ready = sorted(state["ready"], key=keyorder.get)
            if not ready:
                raise RuntimeError("controlled scheduler: tasks waiting but none ready")
            i = chooser(len(ready)) if len(ready) > 1 else 0
            key = ready[i]
            state["ready"].remove(key)
            state["running"].add(key)
            data = {dep: state["cache"][dep] for dep in state["dependencies"][key]}
            res = dsk[key](data)
            if log is not None:
                log.append(key)
            state["cache"][key] = res
            finish_task(dsk, key, state, result_flat, keyorder.get)
        return nested_get(keys, state["cache"])

    return get


def explore(compute, bound, check, max_exec=None):
    """compute(scheduler) -> result; run it under every task order with <= bound non-default choices.

    check(result_or_exception) -> hashable outcome.  Returns dict(executions, decision_points, outcomes, capped).
    """
    stats = {"executions": 0, "points": 0, "outcomes": set(), "capped": False, "transitions": 0}
    stack = [[]]
    while stack:
        prefix = stack.pop()
        tr = []

        def chooser(k):
            c = prefix[len(tr)] if len(tr) < len(prefix) else 0
            if c >= k:
                raise RuntimeError("replay divergence in the controlled Dask scheduler")
            tr.append((k, c))
            return c

        try:
            out = compute(controlled_get(chooser))
        except RuntimeError:
            raise
        except Exception as e:       # a task raised: that is an outcome
            out = e
        stats["executions"] += 1
        stats["transitions"] += len(tr)
        stats["points"] = max(stats["points"], len(tr))
        stats["outcomes"].add(check(out))
        ch = [c for _, c in tr]
        for i in range(len(prefix), len(tr)):
            dev = sum(1 for c in ch[:i] if c)
            if dev + 1 > bound:
                continue
            for alt in range(1, tr[i][0]):
                stack.append(ch[:i] + [alt])
        if max_exec and stats["executions"] >= max_exec:
            stats["capped"] = bool(stack)
            break
    return stats
