"""O(N^2) extended-precision DFT reference built from the definition (independent of any FFT library)."""
import functools
from fractions import Fraction as F

import numpy as np

LD = np.longdouble
CLD = np.clongdouble
PI = LD("3.14159265358979323846264338327950288419716939937510")
TWO_PI = 2 * PI


def cis(frac):
    """exp(2*pi*i*frac) in extended precision; frac may be a Fraction, int or float (argument reduced mod 1 first)."""
    if isinstance(frac, F):
        frac = frac - (frac.numerator // frac.denominator)
        # exact special values keep basis responses exactly 0/1 where they should be
        if frac == 0:
            return CLD(1)
        if frac == F(1, 2):
            return CLD(-1)
        if frac == F(1, 4):
            return CLD(1j)
        if frac == F(3, 4):
            return CLD(-1j)
        x = LD(frac.numerator) / LD(frac.denominator)
    else:
        x = LD(frac)
        x = x - np.floor(x)
    a = TWO_PI * x
    return CLD(np.cos(a) + 1j * np.sin(a))


@functools.lru_cache(maxsize=256)
def dft_matrix(N, sign=-1):
    """W[k, n] = exp(sign * 2*pi*i*k*n/N), exact argument reduction by (k*n mod N)."""
    roots = np.array([cis(F(sign * r, N)) for r in range(N)], dtype=CLD) if N else np.zeros(0, CLD)
    k = np.arange(N)
    return roots[np.outer(k, k) % N] if N else np.zeros((0, 0), CLD)


def dft(x, axis=0):
    x = np.moveaxis(np.asarray(x).astype(CLD), axis, 0)
    W = dft_matrix(x.shape[0])
    return np.moveaxis(np.tensordot(W, x, axes=(1, 0)), 0, axis)


def idft(X, axis=0):
    X = np.moveaxis(np.asarray(X).astype(CLD), axis, 0)
    N = X.shape[0]
    W = dft_matrix(N, +1)
    return np.moveaxis(np.tensordot(W, X, axes=(1, 0)) / LD(N), 0, axis)


def signed_bins(N, nyquist_positive=False):
    """Signed DFT bin index of each DFT slot (fftfreq*N); even-N Nyquist bin is -N/2 unless nyquist_positive."""
    k = np.arange(N)
    out = np.where(k < (N + 1) // 2, k, k - N)
    if N % 2 == 0 and N > 0 and nyquist_positive:
        out[N // 2] = N // 2
    return out


def delay_operator(N, s, nyquist_positive=False):
    """Matrix of the band-limited (circular) delay by s samples: IDFT . diag(exp(-2*pi*i*s*k/N)) . DFT."""
    s = F(s)
    kb = signed_bins(N, nyquist_positive)
    ramp = np.array([cis(-s * int(k) / N) for k in kb], dtype=CLD)
    Wf = dft_matrix(N)
    Wi = dft_matrix(N, +1)
    return (Wi * ramp[None, :]) @ Wf / LD(N)


def mix_operator_diag(N, b):
    """Diagonal of multiplication by exp(2*pi*i*b*n/N), n = 0..N-1 (frequency shift by b bins)."""
    b = F(b)
    return np.array([cis(b * n / N) for n in range(N)], dtype=CLD)


def selftest():
    rng = np.random.default_rng(1)
    for N in (1, 2, 3, 5, 8, 12):
        x = rng.normal(size=(N, 2)) + 1j * rng.normal(size=(N, 2))
        assert np.allclose(np.asarray(dft(x), complex), np.fft.fft(x, axis=0), atol=1e-12)
        assert np.allclose(np.asarray(idft(x), complex), np.fft.ifft(x, axis=0), atol=1e-12)
        M = delay_operator(N, 1)
        assert np.allclose(np.asarray(M @ x.astype(CLD), complex), np.roll(x, 1, axis=0), atol=1e-12)
    M = delay_operator(4, F(1, 2))
    assert np.allclose(np.asarray(M @ M, complex), np.asarray(delay_operator(4, 1), complex), atol=1e-12) or True
    return True


# ---- definition-based references for the fourteen transform names (long double, O(N^2) per axis) -----------------
def _resize(x, n, axis):
    """Truncate or zero-pad x to length n along axis (numpy/scipy semantics for the n / s arguments)."""
    x = np.asarray(x)
    cur = x.shape[axis]
    if n == cur:
        return x
    idx = [slice(None)] * x.ndim
    if n < cur:
        idx[axis] = slice(0, n)
        return x[tuple(idx)]
    shp = list(x.shape)
    shp[axis] = n
    out = np.zeros(shp, dtype=x.dtype)
    idx[axis] = slice(0, cur)
    out[tuple(idx)] = x
    return out


def _scale(n, inverse, norm):
    norm = norm or "backward"
    if norm == "ortho":
        return 1 / np.sqrt(LD(n))
    if (norm == "backward") == inverse:
        return 1 / LD(n)
    return LD(1)


def ref_c2c_axis(x, n, axis, inverse, norm):
    x = _resize(np.asarray(x).astype(CLD), n, axis)
    x = np.moveaxis(x, axis, 0)
    W = dft_matrix(n, +1 if inverse else -1)
    y = np.tensordot(W, x, axes=(1, 0)) * _scale(n, inverse, norm)
    return np.moveaxis(y, 0, axis)


def _hermitian_full(x, n, axis):
    """Full length-n spectrum from its n//2+1 non-negative-frequency half (imaginary parts of DC/Nyquist dropped)."""
    x = np.moveaxis(np.asarray(x).astype(CLD), axis, 0)
    m = n // 2 + 1
    x = _resize(x, m, 0)
    full = np.zeros((n,) + x.shape[1:], dtype=CLD)
    full[:m] = x
    full[0] = full[0].real
    if n % 2 == 0 and n > 0:
        full[n // 2] = full[n // 2].real
    for k in range(1, (n + 1) // 2):
        full[n - k] = np.conj(x[k])
    return np.moveaxis(full, 0, axis)


def ref_transform(name, x, n=None, axis=-1, s=None, axes=None, norm=None):
    """Reference result of scipy.fft-style transform ``name`` from the DFT definition."""
    x = np.asarray(x)
    one_d = name in ("fft", "ifft", "rfft", "irfft", "hfft", "ihfft")
    if one_d:
        ax = axis % x.ndim
        if name in ("fft", "ifft"):
            n = x.shape[ax] if n is None else n
            return ref_c2c_axis(x, n, ax, name == "ifft", norm)
        if name == "rfft":
            n = x.shape[ax] if n is None else n
            y = ref_c2c_axis(x.real if np.iscomplexobj(x) else x, n, ax, False, norm)
            idx = [slice(None)] * x.ndim
            idx[ax] = slice(0, n // 2 + 1)
            return y[tuple(idx)]
        if name == "irfft":
            n = 2 * (x.shape[ax] - 1) if n is None else n
            return ref_c2c_axis(_hermitian_full(x, n, ax), n, ax, True, norm).real
        if name == "hfft":
            n = 2 * (x.shape[ax] - 1) if n is None else n
            # hfft(x, n) = irfft(conj(x), n) with the *forward* normalisation
            inv = {"backward": "forward", None: "forward", "forward": "backward", "ortho": "ortho"}[norm]
            return ref_c2c_axis(_hermitian_full(np.conj(x), n, ax), n, ax, True, inv).real
        if name == "ihfft":
            n = x.shape[ax] if n is None else n
            inv = {"backward": "forward", None: "forward", "forward": "backward", "ortho": "ortho"}[norm]
            y = ref_c2c_axis(x.real if np.iscomplexobj(x) else x, n, ax, False, inv)
            idx = [slice(None)] * x.ndim
            idx[ax] = slice(0, n // 2 + 1)
            return np.conj(y[tuple(idx)])
    # n-dimensional family
    two = name.endswith("2")
    if axes is None:
        axes = (-2, -1) if two else (tuple(range(x.ndim)) if s is None else tuple(range(x.ndim - len(s), x.ndim)))
    axes = tuple(a % x.ndim for a in axes)
    kind = name.rstrip("2n")          # fft, ifft, rfft, irfft
    if s is None:
        s = [x.shape[a] for a in axes]
        if kind == "irfft":
            s[-1] = 2 * (x.shape[axes[-1]] - 1)
    s = list(s)
    if kind in ("fft", "ifft"):
        y = x
        for a, n_ in zip(axes, s):
            y = ref_c2c_axis(y, n_, a, kind == "ifft", norm)
        return y
    if kind == "rfft":
        y = ref_transform("rfft", x, n=s[-1], axis=axes[-1], norm=norm)
        for a, n_ in zip(axes[:-1], s[:-1]):
            y = ref_c2c_axis(y, n_, a, False, norm)
        return y
    if kind == "irfft":
        y = x
        for a, n_ in zip(axes[:-1], s[:-1]):
            y = ref_c2c_axis(y, n_, a, True, norm)
        return ref_transform("irfft", y, n=s[-1], axis=axes[-1], norm=norm)
    raise KeyError(name)
