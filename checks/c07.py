"""C07 -- Phase arithmetic keeps two-double precision for every operand kind.

Enumerated: a grid of counts x fractions (exact +-1/2, denormal-small, un-normalised, half-integer counts) x
EVERY operand kind (Python int/float/bool, NumPy scalars, 0-d/1-d/2-d arrays, lists, Quantities, Angles,
Phases) x both operand orders x real / imaginary, for construction, + - neg abs, * /, // % divmod, trig, exp.
Oracle: exact rational arithmetic on the values read back from the actual operand objects; 2^-52 cycles.
"""
import itertools
import math
import sys
from fractions import Fraction as F

import numpy as np
import astropy.units as u
from astropy.coordinates import Angle, Longitude, Latitude

from pbmc import bind_repo, report

pb = bind_repo()
Phase = pb.Phase
FractionalPhase = pb.pulsar.FractionalPhase
PID = "C07"
TOL = F(1, 2 ** 52)
LIM = 2 ** 52

COUNTS = [0.0, 1.0, -1.0, 2.0, -2.0, 3.0, 1e9, -1e9, float(2 ** 40), float(2 ** 52 - 1), float(-(2 ** 52 - 1)), 123456789012.0,
          2.5, -3.5, 7.5, float(2 ** 51) + 0.5]
FRACS = [0.0, 0.5, -0.5, 0.25, 0.1, -0.3, 2.0 ** -30, 0.49999999999999994, 1e-300, 5e-324, 0.75, 7.3, -1e-16, 1e-16, -1e-20,
         -(2.0 ** -60), -0.2]
FACTORS = [1, -1, 2, 0.5, 3, 1 / 3, 7.3, -2.5, 1e6, 1e-6, 1e15, 2.0 ** -40, 15, 25, 35, 45, 0.9999999999999999, 1.0000000000000002]
ADDENDS = [(0.0, 0.0), (1.0, 0.25), (-2.0, 0.5), (3.0, -0.5), (1e9, 0.1), (float(2 ** 40), -0.3), (0.0, 2.0 ** -30),
           (0.0, 1e-16), (0.0, -1e-16), (7.0, 0.49999999999999994), (123456789012.0, 0.75), (0.0, 1e-300)]
DIVISORS = [1.0, 0.5, 0.3, 7.0, 1e3, 2.5]

QUICK_STRIDE = {"quick": 1, "thorough": 1}


def describe(tier):
    return {
        "bounds": {"counts": COUNTS, "fractions": [repr(f) for f in FRACS], "factors": [repr(f) for f in FACTORS] + ["1j", "2j", "-0.5j"],
                   "addends": len(ADDENDS), "divisors": DIVISORS, "|result| <=": "2^52"},
        "alphabet": ["Phase(x)", "Phase(n, f)", "+p -p abs(p)", "p+q p-q (10 addend kinds, both orders)",
                     "p*k k*p p/k (14 factor kinds incl. arrays, lists, bool, Quantity, imaginary)",
                     "p//d p%d divmod(p,d) (Quantity, Angle, Phase divisors; Quantity // Phase)", "sin cos tan exp(1j p)",
                     "np.add/np.multiply(out=Phase)", "imaginary phases"],
        "rule": "state = (operation, phase value, operand kind, operand value, order); result must be a normalised Phase "
                "(integral count, |frac| <= 1/2) within 2^-52 cycles of the exact rational result computed from the operands' "
                "actual stored values; imaginary flag follows i*i = -1, 1/i = -i",
    }


def gen_cases(tier, seed):
    for ci in range(len(COUNTS)):
        yield {"kind": "unary_mul", "ci": ci}
        yield {"kind": "addsub", "ci": ci}
        yield {"kind": "divmod", "ci": ci}
    yield {"kind": "arrays"}
    yield {"kind": "trig"}
    yield {"kind": "construct_kinds"}


def parts(p):
    v = np.asarray(p).view(np.ndarray)
    return np.atleast_1d(v["int"]).ravel(), np.atleast_1d(v["frac"]).ravel()


def exact(p):
    i, f = parts(p)
    return [F(float(a)) + F(float(b)) for a, b in zip(i, f)]


def check_phase(res, case, site, got, want, sub, imag=False, shape=None):
    """got must be a normalised Phase equal to want (list of Fractions, flattened) within 2^-52."""
    if type(got) is not Phase:
        res.violation(f"{site}|not a Phase", f"result is {type(got).__name__} ({got!r}): precision silently degraded "
                      f"[{sub}]", case, sub)
        return False
    if bool(got.imaginary) != bool(imag) and any(w != 0 for w in want):
        res.violation(f"{site}|imaginary flag", f"imaginary={got.imaginary}, expected {imag} [{sub}]", case, sub)
        return False
    if shape is not None and got.shape != shape:
        res.violation(f"{site}|shape", f"shape {got.shape}, expected {shape} [{sub}]", case, sub)
        return False
    ci, cf = parts(got)
    if len(ci) != len(want):
        res.violation(f"{site}|size", f"{len(ci)} elements, expected {len(want)} [{sub}]", case, sub)
        return False
    ok = True
    for a, b, w in zip(ci, cf, want):
        a, b = float(a), float(b)
        if not (math.isfinite(a) and math.isfinite(b)):
            res.violation(f"{site}|not finite", f"({a}, {b}) [{sub}]", case, sub)
            return False
        if a != math.floor(a) or abs(b) > 0.5:
            res.violation(f"{site}|not normalised", f"(int={a!r}, frac={b!r}): count must be integral and |frac| <= 1/2 "
                          f"[{sub}]", case, sub)
            ok = False
            break
        err = abs(F(a) + F(b) - w)
        if not res.ratio(f"{site.split('|')[0]} err / 2^-52", err, TOL):
            res.violation(f"{site}|value", f"(int={a!r}, frac={b!r}) differs from the exact result {float(w)!r} by "
                          f"{float(err):.3g} cycles ({float(err / TOL):.3g} x 2^-52) [{sub}]", case, sub)
            ok = False
            break
    return ok


def mk(n, f):
    return Phase(np.float64(n), np.float64(f))


def in_range(*vals):
    return all(abs(v) <= LIM for v in vals)


# ---------------------------------------------------------------------------------------------------------------
FACTOR_KINDS = ["pyint_or_float", "np.float64", "np.int64_if_integral", "np.float32_if_exact", "0-d array", "1-d array",
                "2-d array", "list", "dimensionless Quantity", "bool_if_01"]


def factor_objects(k):
    """(kind, object, elementwise exact factors, result shape or None)"""
    fk = F(k)
    yield "python", (int(k) if float(k).is_integer() and abs(k) < 1e9 else float(k)), [fk], ()
    yield "np.float64", np.float64(k), [fk], ()
    if float(k).is_integer() and abs(k) < 2 ** 62:
        yield "np.int64", np.int64(k), [fk], ()
    if float(np.float32(k)) == float(k):
        yield "np.float32", np.float32(k), [fk], ()
    if float(np.float16(k)) == float(k):
        yield "np.float16", np.float16(k), [fk], ()
        yield "float16 array", np.array([k, 1.0], dtype=np.float16), [fk, F(1)], (2,)
    if float(k).is_integer() and abs(k) < 100:
        yield "np.int8", np.int8(k), [fk], ()
        yield "np.uint8 array", np.array([abs(int(k)), 1], dtype=np.uint8), [F(abs(int(k))), F(1)], (2,)
    yield "0-d array", np.array(float(k)), [fk], ()
    yield "1-d array", np.array([float(k), 1.0, float(k)]), [fk, F(1), fk], (3,)
    yield "2-d array", np.array([[float(k), 2.0], [1.0, float(k)]]), [fk, F(2), F(1), fk], (2, 2)
    yield "list", [float(k), 1.0], [fk, F(1)], (2,)
    yield "Quantity", float(k) * u.dimensionless_unscaled, [fk], ()
    # scaled dimensionless units: the factor is the Quantity's value in u.one (50 percent = 0.5)
    qp = (float(k) * 100.0) * u.percent
    yield "percent Quantity", qp, [F(float(qp.to_value(u.dimensionless_unscaled)))], ()
    qk = (float(k) / 1000.0) * (u.km / u.m)
    yield "km/m Quantity", qk, [F(float(qk.to_value(u.dimensionless_unscaled)))], ()
    if k in (1, 0):
        yield "bool", bool(k), [fk], ()


def unary_mul_case(case, res):
    n = COUNTS[case["ci"]]
    for f in FRACS:
        sub0 = {"n": n, "f": repr(f)}
        want0 = F(n) + F(f)
        # --- construction from two numbers and from one
        try:
            p = mk(n, f)
        except Exception as e:
            res.transitions += 1
            res.violation("construct|raised", f"Phase({n!r}, {f!r}): {type(e).__name__}: {e}", case, sub0)
            continue
        res.transitions += 1
        res.traces += 1
        res.state(("ctor2", n, f))
        if in_range(want0):
            check_phase(res, case, "construct(two numbers)", p, [want0], sub0)
        x = n + f
        if in_range(F(x)):
            for kind, obj in (("float", float(x)), ("np.float64", np.float64(x)), ("0-d", np.array(x)), ("Quantity", x * u.cycle),
                              ("Angle", Angle(x, u.cycle))):
                try:
                    p1 = Phase(obj)
                except Exception as e:
                    res.violation("construct(one number)|raised", f"Phase({obj!r}): {type(e).__name__}: {e}", case, dict(sub0, kind=kind))
                    continue
                res.transitions += 1
                res.state(("ctor1", x, kind))
                check_phase(res, case, "construct(one number)", p1, [F(x)], dict(sub0, kind=kind))
        pv = exact(p)[0]
        if not in_range(pv):
            continue
        if abs(float(parts(p)[1][0])) == 0.5:
            res.hits["exact +-1/2 fraction"] += 1
        # --- unary
        for name, fn, w in (("neg", lambda q: -q, -pv), ("pos", lambda q: +q, pv), ("abs", abs, abs(pv)),
                            ("np.negative", np.negative, -pv), ("np.absolute", np.absolute, abs(pv)), ("np.fabs", np.fabs, abs(pv))):
            try:
                r = fn(p)
            except Exception as e:
                res.violation(f"{name}|raised", f"{type(e).__name__}: {e} [{sub0}]", case, sub0)
                continue
            res.transitions += 1
            res.traces += 1
            res.state((name, n, f))
            check_phase(res, case, name, r, [w], sub0)
        # imaginary phase unary
        def attempt(site, fn, sub=sub0):
            try:
                return fn()
            except Exception as e:
                res.violation(f"{site}|raised", f"{type(e).__name__}: {e} [{sub}]", case, sub)
                return None

        pim = attempt("mul(1j)", lambda: p * 1j)
        if type(pim) is Phase and (pim.imaginary or pv == 0):
            res.hits["imaginary phase"] += 1
            check_phase(res, case, "mul(1j)", pim, [pv], sub0, imag=True)
            r = attempt("neg(imaginary)", lambda: -pim)
            if r is not None:
                check_phase(res, case, "neg(imaginary)", r, [-pv], sub0, imag=True)
            r = attempt("abs(imaginary)", lambda: pim + pim)
            if r is not None and in_range(2 * pv):
                check_phase(res, case, "add(imaginary, imaginary)", r, [2 * pv], sub0, imag=True)
        elif pim is not None:
            res.violation("mul(1j)|not imaginary Phase", f"p*1j -> {pim!r}", case, sub0)
        # in-place / out= forms that switch between real and imaginary (the flag must follow the value)
        if in_range(2 * pv):
            steps = [("q *= 1j", lambda q: q.__imul__(1j), pv, True), ("q *= 1j twice", lambda q: q.__imul__(1j).__imul__(1j), -pv, False),
                     ("q *= 2j; q /= 4j", lambda q: q.__imul__(2j).__itruediv__(4j), pv / 2, False),
                     ("np.multiply(p, 2j, out=real q)", lambda q: np.multiply(p, 2j, out=q), 2 * pv, True),
                     ("np.add(p, p, out=imaginary q)", lambda q: np.add(p, p, out=(q.__imul__(1j))), 2 * pv, False),
                     ("np.negative(p, out=imaginary q)", lambda q: np.negative(p, out=(q.__imul__(1j))), -pv, False),
                     ("q += q", lambda q: q.__iadd__(q), 2 * pv, False), ("q += 1.25", lambda q: q.__iadd__(1.25), pv + F(5, 4), False),
                     ("q -= Phase(3, .5)", lambda q: q.__isub__(mk(3.0, 0.5)), pv - F(7, 2), False),
                     ("q /= 4", lambda q: q.__itruediv__(4), pv / 4, False), ("q *= -0.5", lambda q: q.__imul__(-0.5), -pv / 2, False),
                     ("np.absolute(q, out=q)", lambda q: np.absolute(q, out=q), abs(pv), False),
                     ("np.negative(q, out=q)", lambda q: np.negative(q, out=q), -pv, False),
                     ("np.subtract(1, q, out=q)", lambda q: np.subtract(1, q, out=q), 1 - pv, False)]
            for nm, fn, want, wimag in steps:
                q0 = mk(n, f)
                r = attempt(f"in-place|{nm}", lambda: fn(q0))
                res.transitions += 1
                if r is None:
                    continue
                if r is not q0:
                    res.violation(f"in-place|{nm}|identity", f"{nm} did not return the target object [{sub0}]", case, sub0)
                    continue
                check_phase(res, case, f"in-place|{nm}", r, [want], sub0, imag=wimag)
            res.hits["in-place real<->imaginary transitions"] += 1
        # --- multiplication / division by every factor kind
        for k in FACTORS:
            for kind, obj, fks, shp in factor_objects(k):
                sub = dict(sub0, k=repr(k), kind=kind)
                snap_before = _snap(obj)
                wm = [pv * fk for fk in fks]
                wd = [pv / fk for fk in fks]
                res.state(("mul", n, f, k, kind))
                if in_range(*wm):
                    for order, fn in (("p*k", lambda: p * obj), ("k*p", lambda: obj * p), ("np.multiply", lambda: np.multiply(p, obj))):
                        if kind == "list" and order == "k*p":
                            continue       # list.__mul__(Phase) is Python sequence repetition, not arithmetic
                        try:
                            r = fn()
                        except Exception as e:
                            res.violation(f"mul|{kind}|raised", f"{order}: {type(e).__name__}: {e} [{sub}]", case, sub)
                            continue
                        res.transitions += 1
                        res.traces += 1
                        check_phase(res, case, f"mul|{kind}|{order}", r, wm, sub, shape=shp)
                if in_range(*wd):
                    try:
                        r = p / obj
                    except Exception as e:
                        res.violation(f"div|{kind}|raised", f"{type(e).__name__}: {e} [{sub}]", case, sub)
                        continue
                    res.transitions += 1
                    res.traces += 1
                    check_phase(res, case, f"div|{kind}", r, wd, sub, shape=shp)
                if _snap(obj) != snap_before:
                    res.violation(f"operand modified|{kind}", f"the {kind} operand was changed by * or / [{sub}]", case, sub)
            res.hits["factor kinds"] += 1
        # --- imaginary factors / divisors: i*i = -1, 1/i = -i
        for kc in (1j, 2j, -0.5j):
            kf = F(kc.imag)
            sub = dict(sub0, k=repr(kc))
            ro = np.broadcast_to(np.array(kc), (1,))                       # read-only view
            strided = np.array([kc, 0, kc, 0])[::2][:1]
            for obj_kind, obj in (("python complex", kc), ("np.complex128", np.complex128(kc)), ("0-d array", np.array(kc)),
                                  ("1-d array", np.array([kc])), ("read-only array", ro), ("strided view", strided),
                                  ("python complex (again)", kc), ("1-d array used twice", None)):
                if obj_kind == "1-d array used twice":
                    # the SAME array object as factor of two successive products: the second must equal the first
                    obj = np.array([kc])
                    if type(pim) is Phase and in_range(pv * kf):
                        keep = obj.copy()
                        r1 = attempt("imag*imag|array used twice", lambda: pim * obj, sub)
                        r2 = attempt("imag*imag|array used twice", lambda: pim * obj, sub)
                        res.transitions += 2
                        if not np.array_equal(obj, keep):
                            res.violation("operand modified|complex array factor", f"the factor array {keep!r} became {obj!r} [{sub}]", case, sub)
                        elif r1 is not None and r2 is not None:
                            check_phase(res, case, "imag*imag|array used twice", r2, [-pv * kf], sub, imag=False, shape=(1,))
                        res.hits["same factor array used twice"] += 1
                    continue
                shp_ = (1,) if isinstance(obj, np.ndarray) and obj.ndim == 1 else None
                if shp_ is not None:
                    # array-shaped imaginary factors: same values, shape (1,)
                    snap0 = obj.copy()
                    if in_range(pv * kf):
                        for nm, fn in (("p*k", lambda: p * obj), ("k*p", lambda: obj * p)):
                            r = attempt(f"mul(imag)|{obj_kind}|{nm}", fn, sub)
                            res.transitions += 1
                            if r is not None:
                                check_phase(res, case, f"mul(imag)|{obj_kind}|{nm}", r, [pv * kf], sub, imag=True, shape=(1,))
                        if type(pim) is Phase:
                            for nm, fn in (("pim*k", lambda: pim * obj), ("k*pim", lambda: obj * pim)):
                                r = attempt(f"imag*imag|{obj_kind}|{nm}", fn, sub)
                                res.transitions += 1
                                if r is not None:
                                    check_phase(res, case, f"imag*imag|{obj_kind}|{nm}", r, [-pv * kf], sub, imag=False, shape=(1,))
                    if not np.array_equal(obj, snap0):
                        res.violation("operand modified|complex array factor", f"the factor array {snap0!r} became {obj!r} [{sub}]", case, sub)
                    continue
                if in_range(pv * kf):
                    for nm, fn in (("p*k", lambda: p * obj), ("k*p", lambda: obj * p)):
                        r = attempt(f"mul(imag)|{obj_kind}|{nm}", fn, sub)
                        res.transitions += 1
                        if r is not None:
                            check_phase(res, case, f"mul(imag)|{obj_kind}|{nm}", r, [pv * kf], sub, imag=True)
                    if type(pim) is Phase:
                        r = attempt(f"imag*imag|{obj_kind}", lambda: pim * obj, sub)
                        res.transitions += 1
                        if r is not None:
                            check_phase(res, case, f"imag*imag|{obj_kind}", r, [-pv * kf], sub, imag=False)
                if in_range(pv / kf):
                    r = attempt(f"div(imag)|{obj_kind}", lambda: p / obj, sub)
                    res.transitions += 1
                    if r is not None:
                        check_phase(res, case, f"div(imag)|{obj_kind}", r, [-pv / kf], sub, imag=True)      # a/(bi) = -(a/b) i
                    if type(pim) is Phase:
                        r = attempt(f"imag/imag|{obj_kind}", lambda: pim / obj, sub)
                        res.transitions += 1
                        if r is not None:
                            check_phase(res, case, f"imag/imag|{obj_kind}", r, [pv / kf], sub, imag=False)
            res.hits["imaginary factor"] += 1
    res.sample({"count": n, "ops": "construct, neg/abs, * and / by 16 factors x 10 kinds, imaginary factors"}, 1)


def addend_objects(n2, f2):
    """(kind, object, exact value list, shape) for an addend whose value is n2 + f2 cycles."""
    q = mk(n2, f2)
    qv = exact(q)[0]
    x = n2 + f2
    yield "Phase", q, [qv], ()
    yield "Phase array", Phase(np.array([n2, 1.0]), np.array([f2, 0.25])), [qv, F(1) + F(0.25)], (2,)
    if float(x).is_integer() and abs(x) < 2 ** 53:
        yield "python int", int(x), [F(int(x))], ()
        yield "np.int64", np.int64(x), [F(int(x))], ()
    yield "python float", float(x), [F(x)], ()
    yield "np.float64", np.float64(x), [F(x)], ()
    yield "0-d array", np.array(x), [F(x)], ()
    yield "1-d array", np.array([x, 0.5]), [F(x), F(0.5)], (2,)
    yield "2-d array", np.array([[x, 1.0], [0.25, x]]), [F(x), F(1), F(0.25), F(x)], (2, 2)
    yield "cycle Quantity", x * u.cycle, [F(x)], ()
    yield "Angle", Angle(x, u.cycle), [F(x)], ()
    # sibling Angle subclasses (value must survive their wrapping exactly)
    if -0.5 <= x < 0.5:
        yield "FractionalPhase", FractionalPhase(x * u.cycle), [F(x)], ()
    if 0 <= x < 1:
        yield "Longitude", Longitude(x * u.cycle), [F(x)], ()
    if abs(x) <= 0.25:
        yield "Latitude", Latitude(x * u.cycle), [F(x)], ()
    d = x * 360.0
    if abs(d) < 1e6:
        qd = d * u.deg
        yield "degree Quantity", qd, [F(float(qd.to_value(u.cycle)))], ()


def addsub_case(case, res):
    n = COUNTS[case["ci"]]
    for f in FRACS:
        p = mk(n, f)
        pv = exact(p)[0]
        if not in_range(pv):
            continue
        for n2, f2 in ADDENDS:
            for kind, obj, qvs, shp in addend_objects(n2, f2):
                sub = {"n": n, "f": repr(f), "other": [n2, repr(f2)], "kind": kind}
                res.state(("add", n, f, n2, f2, kind))
                for nm, fn, w in (("p+q", lambda: p + obj, [pv + qv for qv in qvs]), ("q+p", lambda: obj + p, [pv + qv for qv in qvs]),
                                  ("p-q", lambda: p - obj, [pv - qv for qv in qvs]), ("q-p", lambda: obj - p, [qv - pv for qv in qvs])):
                    if not in_range(*w):
                        continue
                    try:
                        r = fn()
                    except Exception as e:
                        res.violation(f"addsub|{kind}|raised", f"{nm}: {type(e).__name__}: {e} [{sub}]", case, sub)
                        continue
                    res.transitions += 1
                    res.traces += 1
                    check_phase(res, case, f"addsub|{kind}|{nm}", r, w, sub, shape=shp)
            res.hits["addend kinds"] += 1
        # unit errors: a dimensionless or length Quantity addend must raise or give a correct two-part Phase, never a lossy value
        for bad in (1.0 * u.dimensionless_unscaled, 1.0 * u.m):
            try:
                r = p + bad
            except Exception:
                res.hits["unit-mismatched addend rejected"] += 1
                continue
            res.transitions += 1
            if type(r) is not Phase:
                res.violation("addsub|unit mismatch accepted lossy", f"p + {bad!r} -> {r!r}", case, {"n": n, "f": repr(f)})
        # out= form
        q = mk(1.0, 0.25)
        out = mk(0.0, 0.0)
        if in_range(pv + exact(q)[0]):
            r = np.add(p, q, out=out)
            res.transitions += 1
            if r is not out:
                res.violation("add(out=)|identity", "np.add(..., out=phase) did not return the out object", case, {"n": n, "f": repr(f)})
            check_phase(res, case, "add(out=)", out, [pv + exact(q)[0]], {"n": n, "f": repr(f)})
            out2 = mk(0.0, 0.0)
            np.multiply(p, 0.5, out=out2)
            res.transitions += 1
            check_phase(res, case, "multiply(out=)", out2, [pv / 2], {"n": n, "f": repr(f)})
            res.hits["out= forms"] += 1
        # imaginary + imaginary
        try:
            a, b = p * 1j, q * 1j
            if type(a) is Phase and in_range(pv + exact(q)[0]):
                r = a + b
                res.transitions += 1
                check_phase(res, case, "add(imaginary)", r, [pv + exact(q)[0]], {"n": n, "f": repr(f)}, imag=True)
                r = a - b
                check_phase(res, case, "sub(imaginary)", r, [pv - exact(q)[0]], {"n": n, "f": repr(f)}, imag=True)
        except Exception as e:
            res.violation("add(imaginary)|raised", f"{type(e).__name__}: {e}", case, {"n": n, "f": repr(f)})
    res.sample({"count": n, "ops": "p+q, q+p, p-q, q-p with 12 addends x 12 kinds"}, 1)


def divisor_objects(d):
    yield "cycle Quantity", d * u.cycle, F(d)
    yield "Angle", Angle(d, u.cycle), F(d)
    ph = Phase(d)
    yield "Phase", ph, F(float(ph.cycle.value))
    yield "degree Quantity", (d * 360.0) * u.deg, F(float(((d * 360.0) * u.deg).to_value(u.cycle)))
    # Phase divisors whose value does not fit one double (count + fraction): the exact two-part value is the divisor
    for cnt in (1000000.0, float(2 ** 40 + 1)):
        ph2 = Phase(cnt, d / 8 if abs(d / 8) <= 0.5 else 0.3)
        yield "Phase (two doubles)", ph2, exact(ph2)[0]


def phase_divisor_multiples(case, res):
    """(k d + r) // d, % d for divisors d (Phase needing both doubles, Phase and Quantity of one double, of either sign) and
    remainders r just above AND just below a multiple of d: k and r are recovered exactly."""
    divs = [(cnt, fr, "Phase") for cnt, fr in ((1000000.0, 0.3), (float(2 ** 40 + 1), 0.3), (7.0, 1e-17), (123456789.0, -0.4999),
                                               (100.0, 0.3), (float(2 ** 30), 0.0), (100.0, 0.0), (1.0, 0.0), (-float(2 ** 30), 0.0),
                                               (-100.0, -0.3), (-1.0, 0.0), (3.0, 2.0 ** -60))]
    divs += [(cnt, 0.0, "Quantity") for cnt in (float(2 ** 30), 100.0, 1.0, -float(2 ** 30), 0.75)]
    for cnt, fr, kind in divs:
        d = Phase(cnt, fr)
        dv = exact(d)[0]
        dobj = d if kind == "Phase" else cnt * u.cycle
        sg = 1 if dv > 0 else -1
        for k in (0, 1, 2, 3, 7, 100, 1048577, -1, -5):
            for r_ in (0.0, 0.25, 1e-9, -1e-9, -1e-15, 1e-15, -2.0 ** -40, -1e-12, -1e-17):
                pk = d * k + r_
                pv = exact(pk)[0]
                if abs(pv) > LIM:
                    continue
                fl = math.floor(pv / dv)
                rem = pv - fl * dv
                tolk = TOL * max(1, abs(k))
                near = sg * rem <= tolk or sg * (dv - rem) <= tolk
                sub = {"d": [cnt, repr(fr)], "kind": kind, "k": k, "r": repr(r_)}
                res.state(("phase-divisor", cnt, fr, kind, k, r_))
                try:
                    qq, rr = divmod(pk, dobj)
                    q1, r1 = pk // dobj, pk % dobj
                except Exception as e:
                    res.violation(f"divmod|{kind} (multiples)|raised", f"{type(e).__name__}: {e} [{sub}]", case, sub)
                    continue
                res.transitions += 3
                for nm, q_, r2 in (("divmod", qq, rr), ("// and %", q1, r1)):
                    qv = float(u.Quantity(q_).to_value(u.dimensionless_unscaled))
                    ok_q = int(qv) in ({fl} | ({fl - 1, fl + 1} if near else set()))
                    rv = exact(r2)[0] if type(r2) is Phase else None
                    if (not ok_q or rv is None or abs(int(qv) * dv + rv - pv) > TOL * max(1, abs(int(qv)))
                            or not (-tolk <= sg * rv <= sg * dv + tolk)):
                        res.violation(f"divmod|{kind} (multiples)|multiple of the divisor", f"({k} d + {r_!r}) {nm} d with d = "
                                      f"({cnt!r}, {fr!r}) as {kind}: quotient {qv!r}, remainder {r2!r}; exact quotient {fl}, "
                                      f"remainder {float(rem)!r}", case, sub)
                        break
                else:
                    res.hits["Phase divisor needing two doubles"] += 1
                    if r_ < 0 and not near:
                        res.hits["dividend just below a multiple of the divisor"] += 1


def quantity_dividend(case, res):
    """Quantity // Phase, % and divmod (the Phase as RIGHT operand): same exact arithmetic, remainder a Phase."""
    for cnt, fr in ((3.0, 2.0 ** -60), (1000000.0, 0.3), (7.0, 1e-17), (100.0, 0.0), (-100.0, -0.3), (1.0, 0.25)):
        d = Phase(cnt, fr)
        dv = exact(d)[0]
        sg = 1 if dv > 0 else -1
        for x in (3 * 2.0 ** 40, 7.5, -7.5, 1000000.5, 2.0 ** 30 * 3, 0.125, 299.99999999999994, 1e15 + 0.5):
            pv = F(x)
            fl = math.floor(pv / dv)
            if abs(fl) > LIM:
                continue
            rem = pv - fl * dv
            near = sg * rem <= TOL or sg * (dv - rem) <= TOL
            for unit_name, q in (("cycle", x * u.cycle), ("0-d array cycle", np.array(x) * u.cycle)):
                sub = {"d": [cnt, repr(fr)], "x": repr(x), "form": unit_name}
                res.state(("quantity-dividend", cnt, fr, x, unit_name))
                try:
                    qq, rr = divmod(q, d)
                    q1, r1 = q // d, q % d
                except Exception as e:
                    res.violation("divmod|Quantity dividend|raised", f"{type(e).__name__}: {e} [{sub}]", case, sub)
                    continue
                res.transitions += 3
                for nm, q_, r2 in (("divmod", qq, rr), ("// and %", q1, r1)):
                    qv = float(u.Quantity(q_).to_value(u.dimensionless_unscaled))
                    ok_q = int(qv) in ({fl} | ({fl - 1, fl + 1} if near else set()))
                    rv = exact(r2)[0] if type(r2) is Phase else None
                    if rv is None:
                        res.violation("divmod|Quantity dividend|not a Phase", f"({x!r} cycle) {nm} Phase({cnt!r}, {fr!r}): remainder is "
                                      f"{type(r2).__name__} ({r2!r}): precision silently degraded", case, sub)
                        break
                    if not ok_q or abs(int(qv) * dv + rv - pv) > TOL * max(1, abs(int(qv))) or not (-TOL <= sg * rv <= sg * dv + TOL):
                        res.violation("divmod|Quantity dividend|value", f"({x!r} cycle) {nm} Phase({cnt!r}, {fr!r}): quotient {qv!r}, "
                                      f"remainder {r2!r}; exact quotient {fl}, remainder {float(rem)!r}", case, sub)
                        break
                else:
                    res.hits["Quantity dividend, Phase divisor"] += 1


def divmod_case(case, res):
    n = COUNTS[case["ci"]]
    if case["ci"] == 0:
        phase_divisor_multiples(case, res)
        quantity_dividend(case, res)
    for f in FRACS:
        p = mk(n, f)
        pv = exact(p)[0]
        if not in_range(pv):
            continue
        for d in DIVISORS:
            for kind, obj, dv in divisor_objects(d):
                sub = {"n": n, "f": repr(f), "d": d, "kind": kind}
                qx = pv / dv
                if abs(qx) > LIM:
                    continue
                res.state(("divmod", n, f, d, kind))
                try:
                    q1 = p // obj
                    r1 = p % obj
                    q2, r2 = divmod(p, obj)
                    q3, r3 = np.divmod(p, obj)
                except RecursionError as e:
                    res.violation(f"divmod|{kind}|RecursionError", f"p // {obj!r}: RecursionError [{sub}]", case, sub)
                    continue
                except Exception as e:
                    res.violation(f"divmod|{kind}|raised", f"{type(e).__name__}: {e} [{sub}]", case, sub)
                    continue
                res.transitions += 4
                res.traces += 1
                fl = math.floor(qx)
                rem = pv - fl * dv
                near = rem <= TOL or dv - rem <= TOL
                for nm, qq, rr in (("// and %", q1, r1), ("divmod", q2, r2), ("np.divmod", q3, r3)):
                    site = f"divmod|{kind}|{nm}"
                    try:
                        qval = float(u.Quantity(qq).to_value(u.dimensionless_unscaled))
                    except Exception:
                        res.violation(f"{site}|quotient type", f"quotient {qq!r} is not a dimensionless count [{sub}]", case, sub)
                        continue
                    if qval != math.floor(qval):
                        res.violation(f"{site}|quotient not integral", f"{qval!r} [{sub}]", case, sub)
                        continue
                    allowed = {fl} | ({fl - 1, fl + 1} if near else set())
                    if int(qval) not in allowed:
                        res.violation(f"{site}|quotient", f"quotient {int(qval)}, floor(p/d) = {fl} (p = {float(pv)!r}, d = {float(dv)!r}) "
                                      f"[{sub}]", case, sub)
                        continue
                    if type(rr) is not Phase:
                        res.violation(f"{site}|remainder not a Phase", f"{rr!r} [{sub}]", case, sub)
                        continue
                    rv = exact(rr)[0]
                    ri, rf = parts(rr)
                    if float(ri[0]) != math.floor(float(ri[0])) or abs(float(rf[0])) > 0.5:
                        res.violation(f"{site}|remainder not normalised", f"({ri[0]!r}, {rf[0]!r}) [{sub}]", case, sub)
                    if not (-TOL <= rv <= dv + TOL):
                        res.violation(f"{site}|remainder out of [0, d)", f"remainder {float(rv)!r} for divisor {float(dv)!r} "
                                      f"(p = {float(pv)!r}) [{sub}]", case, sub)
                        continue
                    err = abs(int(qval) * dv + rv - pv)
                    if not res.ratio("q*d + r - p / budget", err, TOL * max(1, abs(int(qval)))):
                        res.violation(f"{site}|q*d + r != p", f"q*d + r - p = {float(err):.3g} [{sub}]", case, sub)
                # in-place / out= forms whose target is the dividend itself
                if kind != "Phase array":
                    for nm, fn in (("p %= d", lambda q0: q0.__imod__(obj)), ("np.remainder(p, d, out=p)", lambda q0: np.remainder(q0, obj, out=q0)),
                                   ("np.divmod(p, d, out=(None, p))", lambda q0: np.divmod(q0, obj, out=(None, q0))[1]),
                                   # the target is a VIEW of the dividend (another object on the same memory)
                                   ("np.remainder(p, d, out=p[...])", lambda q0: np.remainder(q0, obj, out=q0[...])),
                                   ("np.remainder(p[...], d, out=p)", lambda q0: np.remainder(q0[...], obj, out=q0))):
                        q0 = mk(n, f)
                        try:
                            rr = fn(q0)
                        except Exception as e:
                            res.violation(f"divmod|{kind}|{nm}|raised", f"{type(e).__name__}: {e} [{sub}]", case, sub)
                            continue
                        res.transitions += 1
                        if "[...]" in nm:
                            if type(rr) is not Phase or not np.shares_memory(rr, q0):
                                res.violation(f"divmod|{kind}|{nm}|identity", f"result does not live in the given target [{sub}]", case, sub)
                                continue
                        elif rr is not q0 or type(q0) is not Phase:
                            res.violation(f"divmod|{kind}|{nm}|identity", f"target not returned [{sub}]", case, sub)
                            continue
                        rv = exact(q0)[0]
                        # q*d + r = p for an integer q, 0 <= r <= d
                        k_ = (pv - rv) / dv
                        if not (-TOL <= rv <= dv + TOL) or abs(k_ - round(k_)) * dv > TOL * max(1, abs(round(k_))):
                            res.violation(f"divmod|{kind}|{nm}|value", f"in-place remainder of {float(pv)!r} by {float(dv)!r} left "
                                          f"{float(rv)!r} in the target [{sub}]", case, sub)
                    res.hits["in-place remainder"] += 1
                # the target is the DIVISOR (a copy of it: the grid's own divisor object is used again)
                if type(obj) is Phase and kind != "Phase array":
                    for nm, fn in (("np.remainder(p, d, out=d)", lambda q0, dd: np.remainder(q0, dd, out=dd)),
                                   ("np.divmod(p, d, out=(None, d))", lambda q0, dd: np.divmod(q0, dd, out=(None, dd))[1])):
                        q0, dd = mk(n, f), obj.copy()
                        try:
                            rr = fn(q0, dd)
                        except Exception as e:
                            res.violation(f"divmod|{kind}|{nm}|raised", f"{type(e).__name__}: {e} [{sub}]", case, sub)
                            continue
                        res.transitions += 1
                        if rr is not dd:
                            res.violation(f"divmod|{kind}|{nm}|identity", f"target not returned [{sub}]", case, sub)
                            continue
                        rv = exact(dd)[0]
                        k_ = (pv - rv) / dv
                        if (exact(q0)[0] != pv or not (-TOL <= rv <= dv + TOL)
                                or abs(k_ - round(k_)) * dv > TOL * max(1, abs(round(k_)))):
                            res.violation(f"divmod|{kind}|{nm}|value", f"remainder of {float(pv)!r} by {float(dv)!r} written into the "
                                          f"divisor: {float(rv)!r} (dividend afterwards {float(exact(q0)[0])!r}) [{sub}]", case, sub)
                    res.hits["remainder written into the divisor"] += 1
                if near:
                    res.hits["remainder within 2^-52 of 0 or d (either neighbour accepted)"] += 1
                if kind == "Phase":
                    res.hits["Phase divisor"] += 1
            # Quantity // Phase must terminate (the Phase is the divisor)
            try:
                r = (20.0 * u.cycle) // Phase(d)
                res.transitions += 1
                if float(u.Quantity(r).to_value(u.dimensionless_unscaled)) != math.floor(20.0 / d):
                    res.violation("divmod|Quantity // Phase|value", f"(20 cycle) // Phase({d}) = {r!r}", case, {"d": d})
            except RecursionError:
                res.violation("divmod|Quantity // Phase|RecursionError", f"(20 cycle) // Phase({d}) recursed", case, {"d": d})
            except Exception as e:
                res.skipped["Quantity // Phase raised (unit handling; unconstrained)"] += 1
        # plain-number divisors: astropy refuses Angle // number; raising is accepted, a result must be right
        try:
            q, r = divmod(p, 7)
            res.transitions += 1
            if type(r) is Phase and abs(int(float(u.Quantity(q).value)) * 7 + exact(r)[0] - pv) > TOL * 8:
                res.violation("divmod|plain number|value", f"divmod(p, 7) inconsistent", case, {"n": n, "f": repr(f)})
        except Exception:
            res.skipped["plain-number divisor raised (unit error; unconstrained)"] += 1
    res.sample({"count": n, "ops": "// % divmod np.divmod by 6 divisors x 4 kinds"}, 1)


def _snap(obj):
    """Bytes of an array-like operand (None for immutable scalars), to detect operands modified by an operation."""
    if isinstance(obj, Phase):
        return (np.asarray(obj["int"]).tobytes(), np.asarray(obj["frac"]).tobytes())
    if isinstance(obj, (np.ndarray, u.Quantity)):
        return np.asarray(getattr(obj, "value", obj)).tobytes()
    if isinstance(obj, list):
        return repr(obj)
    return None


def arrays_case(case, res):
    """The whole grid as ONE Phase array against scalar and array operands (array code paths, broadcasting)."""
    ns = np.array([n for n in COUNTS for _ in FRACS])
    fs = np.array([f for _ in COUNTS for f in FRACS])
    P = Phase(ns, fs)
    pv = exact(P)
    ok = [in_range(v) for v in pv]
    res.state("grid-array")
    res.transitions += 1
    res.traces += 1

    def masked(site, got, want, sub):
        if type(got) is not Phase:
            res.violation(f"{site}|not a Phase", f"{type(got).__name__} [{sub}]", case, sub)
            return
        gi, gf = parts(got)
        for j, (a, b, w) in enumerate(zip(gi, gf, want)):
            if not ok[j % len(pv)] or not in_range(w):
                continue
            a, b = float(a), float(b)
            if a != math.floor(a) or abs(b) > 0.5:
                res.violation(f"{site}|not normalised", f"element {j}: ({a!r}, {b!r}) [{sub}]", case, dict(sub, j=j))
                return
            if abs(F(a) + F(b) - w) > TOL:
                res.violation(f"{site}|value", f"element {j} (n={ns[j % len(pv)]!r}, f={fs[j % len(pv)]!r}): ({a!r}, {b!r}) vs exact "
                              f"{float(w)!r} [{sub}]", case, dict(sub, j=j))
                return

    for k in FACTORS:
        fk = F(k)
        masked("array*scalar", P * k, [v * fk for v in pv], {"k": repr(k)})
        masked("scalar*array", k * P, [v * fk for v in pv], {"k": repr(k)})
        masked("array/scalar", P / k, [v / fk for v in pv], {"k": repr(k)})
        res.transitions += 3
    col = np.array([[15.0], [25.0], [0.5]])
    r = P * col
    res.transitions += 1
    if type(r) is Phase and r.shape == (3, len(pv)):
        masked("array*column", r, [v * F(c) for c in (15.0, 25.0, 0.5) for v in pv], {"k": "column [15,25,0.5]"})
    else:
        res.violation("array*column|shape/type", f"{type(r).__name__} {getattr(r, 'shape', None)}", case, None)
    for n2, f2 in ADDENDS:
        q = mk(n2, f2)
        qv = exact(q)[0]
        masked("array+scalar Phase", P + q, [v + qv for v in pv], {"other": [n2, repr(f2)]})
        masked("scalar Phase-array", q - P, [qv - v for v in pv], {"other": [n2, repr(f2)]})
        res.transitions += 2
    masked("array+array", P + P[::-1], [a + b for a, b in zip(pv, pv[::-1])], {"op": "P + P[::-1]"})
    masked("-array", -P, [-v for v in pv], {"op": "neg"})
    masked("abs(array)", abs(P), [abs(v) for v in pv], {"op": "abs"})
    res.transitions += 3
    # item assignment and everything built on it (augmented assignment on an element / slice / mask, numpy.roll, fill):
    # the addressed elements get the exact value, stay normalised, the others are untouched
    base_n, base_f = np.array([1e15, 7.0, 3.0, -2.0 ** 40]), np.array([0.3, 0.2, 0.25, -0.45])
    xs = exact(Phase(base_n, base_f))
    new_v = F(21, 4)

    def fresh():
        return Phase(base_n.copy(), base_f.copy())

    def do(label, fn, want):
        res.transitions += 1
        res.state(("setitem", label))
        q = fresh()
        try:
            out = fn(q)
        except Exception as e:
            res.violation(f"setitem|{label}|raised", f"{type(e).__name__}: {e}", case, {"form": label})
            return
        got = q if out is None else out
        if type(got) is not Phase:
            res.violation(f"setitem|{label}|type", f"{type(got).__name__}", case, {"form": label})
            return
        gi, gf = parts(got)
        gv = exact(got)
        if (len(gv) != len(want) or any(abs(a - w) > TOL for a, w in zip(gv, want))
                or any(float(i) != math.floor(float(i)) for i in gi) or any(abs(float(f)) > 0.5 for f in gf)):
            res.violation(f"setitem|{label}|value", f"{label}: phase is now int={[float(i) for i in gi]}, frac={[float(f) for f in gf]}; "
                          f"exact values {[float(w) for w in want]}", case, {"form": label})
        else:
            res.hits["item assignment forms"] += 1

    def setter(idx, val):
        def f(q):
            q[idx] = val
        return f

    def aug(idx, op, val):
        def f(q):
            if op == "+":
                q[idx] += val
            elif op == "-":
                q[idx] -= val
            elif op == "*":
                q[idx] *= val
            else:
                q[idx] /= val
        return f

    do("q[1] = Phase", setter(1, Phase(5.0, 0.25)), [xs[0], new_v, xs[2], xs[3]])
    do("q[1] = Quantity", setter(1, 5.25 * u.cycle), [xs[0], new_v, xs[2], xs[3]])
    do("q[-1] = Phase (two doubles)", setter(-1, Phase(2.0 ** 45, 0.3)), [xs[0], xs[1], xs[2], F(2 ** 45) + F(0.3)])
    do("q[0:2] = q[2:4]", lambda q: setter(slice(0, 2), q[2:4].copy())(q), [xs[2], xs[3], xs[2], xs[3]])
    do("q[[0, 3]] = Phase scalar (broadcast)", setter([0, 3], Phase(5.0, 0.25)), [new_v, xs[1], xs[2], new_v])
    do("q[mask] = Phase array", setter(np.array([True, False, True, False]), Phase(np.array([5.0, 1e15]), np.array([0.25, 0.3]))),
       [new_v, xs[1], xs[0], xs[3]])
    do("q[...] = Phase scalar", setter(Ellipsis, Phase(5.0, 0.25)), [new_v] * 4)
    do("q[1] += 1", aug(1, "+", 1.0), [xs[0], xs[1] + 1, xs[2], xs[3]])
    do("q[0:2] *= 2", aug(slice(0, 2), "*", 2), [2 * xs[0], 2 * xs[1], xs[2], xs[3]])
    do("q[0:2] -= Phase(0.25)", aug(slice(0, 2), "-", Phase(0.25)), [xs[0] - F(1, 4), xs[1] - F(1, 4), xs[2], xs[3]])
    do("q[1:] /= 2", aug(slice(1, None), "/", 2), [xs[0], xs[1] / 2, xs[2] / 2, xs[3] / 2])
    do("q[q > Phase(5)] += 1", lambda q: aug(np.asarray(q > Phase(5.0)), "+", 1.0)(q), [xs[0] + 1, xs[1] + 1, xs[2], xs[3]])
    do("np.roll(p, 1)", lambda q: np.roll(q, 1), [xs[3], xs[0], xs[1], xs[2]])
    do("np.roll(p, -1) + 0", lambda q: np.roll(q, -1) + 0, [xs[1], xs[2], xs[3], xs[0]])
    do("p.fill(Phase)", lambda q: q.fill(Phase(5.0, 0.25)), [new_v] * 4)
    do("p[::-1].copy()", lambda q: q[::-1].copy(), xs[::-1])
    do("np.put(p, [0, 2], Phase)", lambda q: np.put(q, [0, 2], Phase(2.0 ** 45, 0.3)), [F(2 ** 45) + F(0.3), xs[1], F(2 ** 45) + F(0.3), xs[3]])
    do("p.put([1], Phase array)", lambda q: q.put([1], Phase(np.array([5.0]), np.array([0.25]))), [xs[0], new_v, xs[2], xs[3]])
    # a value that is not an angle is refused and leaves the phase as it was
    q = fresh()
    res.transitions += 1
    try:
        q[1] = 3 * u.s
        res.violation("setitem|wrong unit accepted", f"q[1] = 3 s was accepted: {q!r}", case, None)
    except Exception:
        if exact(q) != xs:
            res.violation("setitem|refused but modified", "q[1] = 3 s raised and changed the phase", case, None)
        else:
            res.hits["item assignment of a non-angle refused"] += 1
    # the outer form of the arithmetic ufuncs: every pair, in two-double arithmetic (the same as a[:, None] <op> b)
    oa = Phase(np.array([2.0 ** 40, 5.0, -7.0]), np.array([0.3, 0.125, -0.45]))
    ob = Phase(np.array([2.0 ** 41, -1.0]), np.array([0.1, 0.2]))
    oav, obv = exact(oa), exact(ob)
    facs = np.array([3.0, 7.0, 0.5])
    for nm, fn, want in (("np.add.outer(p, q)", lambda: np.add.outer(oa, ob), [[x + y for y in obv] for x in oav]),
                         ("np.subtract.outer(p, q)", lambda: np.subtract.outer(oa, ob), [[x - y for y in obv] for x in oav]),
                         ("np.multiply.outer(p, factors)", lambda: np.multiply.outer(oa, facs), [[x * F(float(f)) for f in facs] for x in oav]),
                         ("np.multiply.outer(factors, p)", lambda: np.multiply.outer(facs, oa), [[x * F(float(f)) for x in oav] for f in facs]),
                         ("np.divide.outer(p, divisors)", lambda: np.divide.outer(oa, facs), [[x / F(float(f)) for f in facs] for x in oav]),
                         ("np.add.outer(p, Quantity)", lambda: np.add.outer(oa, np.array([0.25, 2.0 ** 30]) * u.cycle),
                          [[x + y for y in (F(1, 4), F(2 ** 30))] for x in oav])):
        res.transitions += 1
        res.state(("outer", nm))
        try:
            got = fn()
        except Exception as e:
            res.hits["outer form refused"] += 1
            continue
        flat = [w for row in want for w in row]
        if type(got) is not Phase:
            res.violation(f"outer|{nm}|not a Phase", f"{nm} returned {type(got).__name__}: precision silently degraded", case, {"call": nm})
            continue
        gv = exact(got)
        if got.shape != (len(want), len(want[0])) or any(abs(a - w) > TOL * max(1, abs(w)) * 2 for a, w in zip(gv, flat)):
            res.violation(f"outer|{nm}|value", f"{nm}: values {[float(a) for a in gv][:4]}..., exact {[float(w) for w in flat][:4]}...", case,
                          {"call": nm})
        else:
            res.hits["outer form in two-double arithmetic"] += 1
    # ufunc.at (unbuffered in-place update at given positions): the update is made exactly, or the call is refused -
    # leaving the phase unchanged without a word is a silent loss
    for nm, call, delta in (("np.add.at(p, [0], 1.0)", lambda q: np.add.at(q, [0], 1.0), F(1)),
                            ("np.subtract.at(p, [1], 0.25 cycle)", lambda q: np.subtract.at(q, [1], 0.25 * u.cycle), F(-1, 4)),
                            ("np.negative.at(p, [0])", lambda q: np.negative.at(q, [0]), None)):
        q = Phase(np.array([5.0, float(2 ** 40)]), np.array([0.3, -0.2]))
        before = exact(q)
        idx = 1 if "[1]" in nm else 0
        res.transitions += 1
        try:
            call(q)
        except Exception:
            res.hits["ufunc.at refused"] += 1
            if exact(q) != before:
                res.violation("at|refused but modified", f"{nm} raised and changed the phase", case, {"call": nm})
            continue
        after = exact(q)
        want = list(before)
        want[idx] = -before[idx] if delta is None else before[idx] + delta
        if any(abs(a - w) > TOL for a, w in zip(after, want)):
            res.violation("at|silently wrong", f"{nm} returned normally; the phase is now {[float(a) for a in after]}, exact update gives "
                          f"{[float(w) for w in want]}", case, {"call": nm})
        else:
            res.hits["ufunc.at applied exactly"] += 1
    res.hits["whole grid as one array"] += 1
    res.sample({"array": "all %d grid phases at once" % len(pv)}, 1)


def trig_case(case, res):
    for n in COUNTS[:12]:
        for f in FRACS:
            p = mk(n, f)
            if not in_range(exact(p)[0]):
                continue
            fr = float(parts(p)[1][0])
            ang = 2 * math.pi * fr
            sub = {"n": n, "f": repr(f)}
            res.state(("trig", n, f))
            for nm, fn, ref in (("sin", np.sin, math.sin(ang)), ("cos", np.cos, math.cos(ang)), ("tan", np.tan, math.tan(ang))):
                try:
                    got = float(u.Quantity(fn(p)).to_value(u.dimensionless_unscaled))
                except Exception as e:
                    res.violation(f"{nm}|raised", f"{type(e).__name__}: {e} [{sub}]", case, sub)
                    continue
                res.transitions += 1
                res.traces += 1
                if abs(fr) == 0.25 and nm == "tan":
                    continue
                tol = 8 * np.finfo(float).eps * max(1.0, abs(ref)) * (1 + abs(ref) ** 2 if nm == "tan" else 1)
                if abs(got - ref) > tol:
                    res.violation(f"{nm}|value", f"{nm}(p) = {got!r}, {nm}(2 pi frac) = {ref!r} (frac {fr!r}) [{sub}]", case, sub)
                # invariance under adding whole cycles
                for k in (1, 12345678):
                    if in_range(exact(p)[0] + k):
                        g2 = float(u.Quantity(fn(p + k)).to_value(u.dimensionless_unscaled))
                        res.transitions += 1
                        if abs(g2 - got) > tol:
                            res.violation(f"{nm}|depends on the count", f"{nm}(p + {k}) = {g2!r} != {nm}(p) = {got!r} [{sub}]",
                                          case, sub)
            try:
                e = complex(u.Quantity(np.exp(1j * p)).to_value(u.dimensionless_unscaled))
            except Exception as ex:
                res.violation("exp|raised", f"exp(1j*p): {type(ex).__name__}: {ex} [{sub}]", case, sub)
                continue
            res.transitions += 1
            ref = complex(math.cos(ang), math.sin(ang))
            if abs(e - ref) > 8 * np.finfo(float).eps:
                res.violation("exp|value", f"exp(1j p) = {e!r}, expected {ref!r} [{sub}]", case, sub)
            res.hits["trig/exp on fractional part"] += 1
    res.sample({"trig": "sin cos tan exp(1j p) on the grid, invariance under +1 and +12345678 cycles"}, 1)


def construct_kinds_case(case, res):
    """Construction from two operands of every kind (arrays, Quantities, Phase + number)."""
    # (the two numbers in either order, also a small non-integer FIRST and a huge count SECOND: "count, fraction" is a
    # convention, not a precondition)
    pairs = list(itertools.product([3.0, -2.0, 1e9, 2.5], [0.25, -0.3, 7.3, -1e-16]))
    pairs += [(f_, n_) for n_, f_ in pairs] + [(0.3, float(2 ** 40)), (-0.7, float(2 ** 51 + 1)), (0.1, 1e15), (1e-9, -float(2 ** 45)),
                                                 (float(2 ** 40), 0.3), (0.25, 0.75), (1e-20, 1.0), (-0.5000000000000001, 5.4e-17), (0.5000000000000001, -5.4e-17), (0.49999999999999994, 0.0)]
    for n, f in pairs:
        w = F(n) + F(f)
        if abs(n) < abs(f):
            res.hits["smaller number given first"] += 1
        kinds = [("float,float", lambda: Phase(n, f)), ("np,np", lambda: Phase(np.float64(n), np.float64(f))),
                 ("array,array", lambda: Phase(np.array([n, n]), np.array([f, f]))),
                 ("Quantity,Quantity", lambda: Phase(n * u.cycle, f * u.cycle)),
                 ("Phase,float", lambda: Phase(Phase(n), f)), ("float,Phase", lambda: Phase(n, Phase(f))),
                 ("Angle,float", lambda: Phase(Angle(n, u.cycle), f)), ("0-d,0-d", lambda: Phase(np.array(n), np.array(f)))]
        for kind, fn in kinds:
            sub = {"n": n, "f": repr(f), "kind": kind}
            try:
                p = fn()
            except Exception as e:
                res.violation("construct(two operands)|raised", f"{kind}: {type(e).__name__}: {e}", case, sub)
                continue
            res.transitions += 1
            res.traces += 1
            res.state(("ctor-kind", n, f, kind))
            check_phase(res, case, f"construct(two operands)|{kind}", p, [w] * (2 if kind == "array,array" else 1), sub)
    # the two numbers given in narrower floating-point containers (their values are exact doubles): same exact sum
    for n, f in ((1e6, 0.3), (3.0, -0.3), (2.0 ** 20 + 1, 0.45), (-7.0, 0.123456789), (0.1, 0.7)):
        for dt_ in (np.float32, np.float16):
            with np.errstate(over="ignore"):
                n_, f_ = dt_(n), dt_(f)
            if not (np.isfinite(n_) and np.isfinite(f_)):
                continue
            w = F(float(n_)) + F(float(f_))
            for kind, fn in ((f"{np.dtype(dt_).name} scalars", lambda: Phase(n_, f_)),
                             (f"{np.dtype(dt_).name} arrays", lambda: Phase(np.array([n_, n_], dtype=dt_), np.array([f_, f_], dtype=dt_))),
                             (f"{np.dtype(dt_).name} 0-d arrays", lambda: Phase(np.array(n_, dtype=dt_), np.array(f_, dtype=dt_))),
                             (f"{np.dtype(dt_).name} Quantity arrays", lambda: Phase(np.array([n_, n_], dtype=dt_) * u.cycle,
                                                                                      np.array([f_, f_], dtype=dt_) * u.cycle)),
                             (f"{np.dtype(dt_).name} array alone", lambda: Phase(np.array([f_, f_], dtype=dt_)))):
                sub = {"n": float(n_), "f": repr(float(f_)), "kind": kind}
                try:
                    p = fn()
                except Exception as e:
                    res.violation("construct(narrow floats)|raised", f"{kind}: {type(e).__name__}: {e}", case, sub)
                    continue
                res.transitions += 1
                res.state(("ctor-narrow", float(n_), float(f_), kind))
                wv = F(float(f_)) if kind.endswith("alone") else w
                check_phase(res, case, f"construct(narrow floats)|{kind}", p, [wv] * (2 if "arrays" in kind and "0-d" not in kind or kind.endswith("alone") else 1), sub)
    # divisors held in half / single precision
    for dv_, dt_ in ((0.5, np.float16), (0.75, np.float32), (3.0, np.float16)):
        p = Phase(1e6, 0.3)
        d = dt_(dv_) * u.cycle
        res.transitions += 1
        try:
            qq, rr = divmod(p, d)
            qv = float(u.Quantity(qq).to_value(u.dimensionless_unscaled))
            rv = exact(rr)[0]
            pv = exact(p)[0]
            if not np.isfinite(qv) or abs(int(qv) * F(dv_) + rv - pv) > TOL * max(1, abs(qv)) or not (-TOL <= rv <= F(dv_) + TOL):
                res.violation("divmod|narrow divisor|value", f"divmod(Phase(1e6, 0.3), {np.dtype(dt_).name}({dv_}) cycle) = ({qv!r}, {rr!r})",
                              case, {"d": dv_, "dtype": np.dtype(dt_).name})
        except Exception as e:
            res.violation("divmod|narrow divisor|raised", f"{type(e).__name__}: {e}", case, {"d": dv_, "dtype": np.dtype(dt_).name})
    res.hits["construction kinds"] += 1
    res.sample({"construct": "Phase(a, b) for 8 operand-kind pairs"}, 1)


def check_case(case):
    res = report.Result()
    {"unary_mul": unary_mul_case, "addsub": addsub_case, "divmod": divmod_case, "arrays": arrays_case, "trig": trig_case,
     "construct_kinds": construct_kinds_case}[case["kind"]](case, res)
    return res


def main(argv=None):
    return report.run_check(
        PID, gen_cases=gen_cases, check_case=check_case, describe=describe,
        required_hits=["exact +-1/2 fraction", "imaginary phase", "factor kinds", "imaginary factor", "same factor array used twice", "in-place real<->imaginary transitions", "addend kinds",
                       "unit-mismatched addend rejected", "out= forms", "Phase divisor", "in-place remainder",
                       "remainder within 2^-52 of 0 or d (either neighbour accepted)", "whole grid as one array",
                       "trig/exp on fractional part", "construction kinds", "smaller number given first", "Phase divisor needing two doubles", "dividend just below a multiple of the divisor", "Quantity dividend, Phase divisor", "remainder written into the divisor", "item assignment forms", "item assignment of a non-angle refused"],
        assumptions=["operand values are read back exactly (Fractions of the stored doubles); results beyond 2^52 cycles are outside "
                     "the property", "plain-number divisors of // % divmod are refused by astropy (unit error) and left open",
                     "list * Phase (Python sequence repetition) is not arithmetic"],
        argv=argv, chunksize=1)


if __name__ == "__main__":
    sys.exit(main())
