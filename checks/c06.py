"""C06 -- dispersion delays obey the f^-2 law; incoherent dedispersion realigns by them.

(1) time_delay / sample_delay on a grid of DM (several units, both signs) x frequency pairs (several units,
    scalar and array) x sample rates: exact rational law, antisymmetry, chain additivity.
(2) incoherent_dedispersion on every class x nchan x alignment x reference (inside / edge / outside / None) x
    sweep (both signs, 0 .. beyond the block) x length x start/none x trailing dims: every returned sample is
    traced to its source through an index-encoding payload and the exact rounded delay.
"""
import itertools
import math
import sys
from fractions import Fraction as F

import numpy as np
import astropy.units as u

from pbmc import bind_repo, report, factory, history
from pbmc.exact import time_days as T, hz, sec, fr, ULP_T, round_half_even, unit_scale
from pbmc.oracles import dispersion

pb = bind_repo()
PID = "C06"
REL = F(1, 2 ** 52)
DMU = u.pc / u.cm ** 3

BOUNDS = {
    "quick": dict(nchan=[1, 2, 3, 4, 5], Ns=[1, 2, 6, 12, 24]),
    "thorough": dict(nchan=[1, 2, 3, 4, 5, 6, 8], Ns=[1, 2, 3, 6, 7, 12, 24, 33]),
}
FREQS = [(10, "MHz"), (100, "MHz"), (327, "MHz"), (0.4, "GHz"), (1.4e9, "Hz"), (8, "GHz"), (1234.5678, "MHz")]
DMS = [(0.0, "pc/cm3"), (2.41e-4, "pc/cm3"), (-2.41e-4, "pc/cm3"), (1.0, "pc/cm3"), (-1.0, "pc/cm3"), (56.7, "pc/cm3"),
       (1e3, "pc/cm3"), (3e7, "pc/m3"), (-5.5e6, "pc/m3"), (1.2e20, "1/cm2")]
RATES = [(1, "Hz"), (1, "MHz"), (3.7, "GHz"), (1 / 3, "kHz")]


def describe(tier):
    b = BOUNDS[tier]
    return {
        "bounds": {"delay law": f"{len(DMS)} DMs (3 units, both signs) x all ordered pairs/triples of {len(FREQS)} frequencies "
                                f"(Hz/MHz/GHz) x {len(RATES)} rates; scalar and array f",
                   "incoherent": {"classes": factory.RADIO, "nchan": b["nchan"], "N": b["Ns"], "alignments": 3,
                                  "references": ["None", "center", "bottom edge", "top edge", "above band", "below band", "a label"],
                                  "sweeps (samples across band)": "0, +-0.4, +-2.3, +-(N-0.5), +-(N+2.3), 3N+0.7"}},
        "alphabet": ["DM.time_delay(f, f_ref)", "DM.sample_delay(f, f_ref, sr)", "incoherent_dedispersion(z, DM, ref_freq=...)"],
        "rule": "state = one (DM, f, f_ref[, sr]) tuple or one (class, nchan, align, N, start, sweep, ref) configuration; one "
                "real call each; delays compared with K*DM*(f^-2 - f_ref^-2) in Fractions; every output sample decoded to "
                "(source time index, element) and required to be the input sample at T + round(delay_i)/sr",
    }


def gen_cases(tier, seed):
    b = BOUNDS[tier]
    for di in range(len(DMS)):
        yield {"kind": "law", "dm": di}
    for cls in factory.RADIO:
        for nchan in b["nchan"]:
            for align in ("bottom", "center", "top"):
                for N in b["Ns"]:
                    for start in ("none", "iso"):
                        yield {"kind": "incoh", "cls": cls, "nchan": nchan, "align": align, "N": N, "start": start}


def dm_exact(dmq):
    """Exact DM in pc/cm^3 of a DispersionMeasure quantity (value * exact-ish unit scale)."""
    if dmq.unit == DMU:
        return fr(dmq.value)
    sc = (1 * dmq.unit).to_value(DMU)          # pc/m3 -> 1e-6 exactly decimal; 1/cm2 -> 1/parsec-in-cm (float constant)
    r = repr(float(sc))
    return fr(dmq.value) * F(r)


def law_case(case, res):
    dv, du = DMS[case["dm"]]
    dm = pb.DM(dv, u.Unit(du))
    dmx = dm_exact(dm)
    unit_is_const = du == "1/cm2"        # conversion through the parsec constant: only float-accurate
    fq = [v * u.Unit(un) for v, un in FREQS]
    fx = [hz(q) for q in fq]

    def tol(f1, f2):
        big = abs(dispersion.K * dmx) * max(1 / (f1 / 10 ** 6) ** 2, 1 / (f2 / 10 ** 6) ** 2)
        return big * (16 * REL if not unit_is_const else F(1, 10 ** 12))

    vals = {}
    for (i, a), (j, b_) in itertools.product(enumerate(fq), repeat=2):
        d = dm.time_delay(a, b_)
        res.transitions += 1
        res.traces += 1
        res.state(("law", case["dm"], i, j))
        sub = {"dm": [dv, du], "f": FREQS[i], "f_ref": FREQS[j]}
        if not isinstance(d, u.Quantity) or not d.unit.is_equivalent(u.s):
            res.violation("time_delay|unit", f"time_delay returned {d!r}", case, sub)
            continue
        got = sec(d)
        want = dispersion.delay_s(dmx, fx[i], fx[j])
        vals[(i, j)] = got
        if not res.ratio("delay err / budget", abs(got - want), tol(fx[i], fx[j])):
            res.violation("time_delay|value", f"time_delay({FREQS[i]}, {FREQS[j]}) with DM {dv} {du} = {float(got)!r} s, "
                          f"K*DM*(f^-2 - f_ref^-2) = {float(want)!r} s", case, sub)
        if i == j and got != 0:
            res.violation("time_delay|self delay", f"delay of a frequency relative to itself is {float(got)}", case, sub)
        for rv, ru in RATES:
            srq = rv * u.Unit(ru)
            sd = dm.sample_delay(a, b_, srq)
            res.transitions += 1
            w = want * hz(srq)
            if not res.ratio("sample_delay err / budget", abs(fr(float(sd)) - w), tol(fx[i], fx[j]) * hz(srq) * 2 + abs(w) * 4 * REL):
                res.violation("sample_delay|value", f"sample_delay({FREQS[i]}, {FREQS[j]}, {rv} {ru}) = {float(sd)!r}, "
                              f"expected {float(w)!r}", case, dict(sub, rate=[rv, ru]))
    # antisymmetry and chain additivity on the returned values
    n = len(fq)
    for i, j in itertools.combinations(range(n), 2):
        if (i, j) in vals and (j, i) in vals:
            if not res.ratio("antisymmetry err / budget", abs(vals[(i, j)] + vals[(j, i)]), 2 * tol(fx[i], fx[j])):
                res.violation("time_delay|antisymmetry", f"d({FREQS[i]},{FREQS[j]}) + d({FREQS[j]},{FREQS[i]}) = "
                              f"{float(vals[(i, j)] + vals[(j, i)])}", case, {"i": i, "j": j})
    for i, j, k in itertools.permutations(range(n), 3):
        if all(p in vals for p in ((i, j), (j, k), (i, k))):
            t3 = tol(fx[i], fx[j]) + tol(fx[j], fx[k]) + tol(fx[i], fx[k])
            if not res.ratio("additivity err / budget", abs(vals[(i, j)] + vals[(j, k)] - vals[(i, k)]), t3):
                res.violation("time_delay|additivity", f"d(f{i},f{j}) + d(f{j},f{k}) != d(f{i},f{k})", case,
                              {"i": i, "j": j, "k": k})
    # infinite reference frequency: delay = K DM f^-2 (and minus that with the roles swapped)
    for i, a in enumerate(fq):
        for infq in (np.inf * u.MHz, np.inf * u.Hz):
            d1, d2 = dm.time_delay(a, infq), dm.time_delay(infq, a)
            res.transitions += 2
            want = dispersion.delay_s(dmx, fx[i], None)
            t_ = abs(want) * (16 * REL if not unit_is_const else F(1, 10 ** 12)) + F(1, 10 ** 300)
            if not np.isfinite(d1.value) or abs(sec(d1) - want) > t_ or not np.isfinite(d2.value) or abs(sec(d2) + want) > t_:
                res.violation("time_delay|infinite reference", f"time_delay({FREQS[i]}, inf) = {d1!r}, time_delay(inf, f) = {d2!r}; "
                              f"K*DM/f^2 = {float(want)!r} s", case, {"f": FREQS[i]})
    res.hits["infinite reference frequency"] += 1
    res.hits["delay law triples"] += 1
    # array-valued f
    arr = u.Quantity([q.to(u.MHz) for q in fq])
    d = dm.time_delay(arr, fq[3])
    res.transitions += 1
    for i in range(n):
        want = dispersion.delay_s(dmx, hz(arr[i]), fx[3])
        if abs(sec(d[i]) - want) > tol(hz(arr[i]), fx[3]):
            res.violation("time_delay|array value", f"array f element {i}: {float(sec(d[i]))} vs {float(want)}", case, {"i": i})
    # frequencies held in integer and single-precision containers (whole numbers of Hz / MHz): same law, no wrap-around
    for fv, un, dt_ in ((4000000000, "Hz", np.int64), (1400000000, "Hz", np.int64), (100000, "MHz", np.int32), (327, "MHz", np.int16),
                        (8000, "MHz", np.uint16), (4000000000, "Hz", np.uint64), (1400, "MHz", np.float32)):
        for shape in ((), (2,)):
            fi = u.Quantity(np.full(shape, fv, dtype=dt_), u.Unit(un), dtype=dt_)
            fxi = F(fv) * (10 ** 6 if un == "MHz" else 1)
            sub = {"dm": [dv, du], "f": [fv, un], "dtype": np.dtype(dt_).name, "shape": list(shape)}
            for role, call, want in (("f", lambda: dm.time_delay(fi, fq[3]), dispersion.delay_s(dmx, fxi, fx[3])),
                                     ("f_ref", lambda: dm.time_delay(fq[3], fi), dispersion.delay_s(dmx, fx[3], fxi))):
                res.transitions += 1
                try:
                    d = call()
                except Exception as e:
                    res.violation("time_delay|integer-typed frequency raised", f"{role}: {type(e).__name__}: {e} [{sub}]", case, sub)
                    continue
                got = sec(d.ravel()[0] if shape else d)
                if abs(got - want) > tol(fxi, fx[3]):
                    res.violation("time_delay|integer-typed frequency value", f"time_delay with {role} = {fv} {un} held as "
                                  f"{np.dtype(dt_).name}: {float(got)!r} s, law gives {float(want)!r} s", case, dict(sub, role=role))
    res.hits["frequencies in integer containers"] += 1
    # history on ONE DM object: use it, update it in place, use it again == a fresh DM of the new value
    dmh = pb.DM(dv, u.Unit(du))
    _ = (dmh.time_delay(fq[0], fq[3]), dmh.sample_delay(fq[1], fq[2], 1 * u.MHz))
    steps = (("*= -2", lambda d_: d_.__imul__(-2)), ("+= 1.5 unit", lambda d_: d_.__iadd__(1.5 * d_.unit)),
             ("[...] = 0.25 unit", lambda d_: d_.__setitem__(..., 0.25 * d_.unit)), ("/= 4", lambda d_: d_.__itruediv__(4)))
    for name, fn in steps:
        try:
            r_ = fn(dmh)
            if r_ is not None:
                dmh = r_
            fresh = pb.DM(dmh.value.copy() if hasattr(dmh.value, "copy") else dmh.value, dmh.unit)
            pairs = [(dmh.time_delay(a, b_), fresh.time_delay(a, b_)) for a in fq[:3] for b_ in fq[3:5]]
            pairs += [(dmh.sample_delay(fq[0], fq[4], 1 * u.MHz), fresh.sample_delay(fq[0], fq[4], 1 * u.MHz))]
        except Exception as e:
            res.violation("time_delay|DM updated in place raised", f"{name}: {type(e).__name__}: {e}", case, {"step": name})
            break
        res.transitions += 2 * len(pairs)
        if type(dmh) is not type(fresh) or any(np.any(np.asarray(x_) != np.asarray(y_)) for x_, y_ in pairs):
            res.violation("time_delay|stale after the DM object was updated in place", f"after '{name}' the object (now {dmh!r}) gives "
                          f"delays different from a fresh DM of the same value", case, {"step": name})
            break
    else:
        res.hits["DM object updated in place"] += 1
    if du != "pc/cm3":
        res.hits["DM in a non-default unit"] += 1
    if dv < 0:
        res.hits["negative DM"] += 1
    res.sample({"dm": [dv, du], "example": "time_delay(327 MHz, 1.4e9 Hz)"}, 1)


def exact_labels(z):
    sc = hz(1 * z.channel_freqs.unit)
    return [F(float(v)) * sc for v in np.atleast_1d(z.channel_freqs.value)]


def incoh_case(case, res):
    cls, nchan, N = case["cls"], case["nchan"], case["N"]
    extra = (2,) if cls in ("RadioSignal", "IntensitySignal") and nchan % 2 else ()
    configs = [("1MHz", 400 * u.MHz, None)]
    if cls in ("RadioSignal", "IntensitySignal", "FullStokesSignal"):
        configs.append(("1kHz", 1.4 * u.GHz, 10 * u.MHz))
        if nchan % 2 == 0:
            # a band that straddles 0 Hz (labels of either sign): f^-2 is not monotonic across it, the earliest channel is an inner one
            configs.append(("1kHz", 0 * u.MHz, 100 * u.MHz))
    for rate, fc, cbw in configs:
        z = factory.make_encoded(cls, N, nchan=nchan, extra=extra, rate_name=rate, start_name=case["start"], fc=fc,
                                 align=case["align"], chan_bw=cbw)
        zdata = np.asarray(z.data)
        labels = exact_labels(z)
        srx = hz(z.sample_rate)
        fmin, fmax = hz(z.min_freq), hz(z.max_freq)
        T0 = None if z.start_time is None else T(z.start_time)
        refs = [("none", None), ("center", z.center_freq), ("bottom", z.min_freq), ("top", z.max_freq),
                ("above", z.max_freq + 2 * z.chan_bw), ("below", z.min_freq - 3 * z.chan_bw),
                ("label", z.channel_freqs[min(1, nchan - 1)]), ("inf", np.inf * u.MHz)]
        straddle = hz(fc) == 0
        if straddle and any(lab == 0 for lab in labels):
            continue                                      # (a channel at 0 Hz has no finite delay)
        for refname, ref in refs:
            refx = hz(z.center_freq) if ref is None else (None if refname == "inf" else hz(ref))
            if straddle and refx == 0:
                continue                                  # (a reference of 0 Hz has no finite delay)
            unit_sweep = dispersion.delay_samples(1, fmin, refx, srx) - dispersion.delay_samples(1, fmax, refx, srx)
            if straddle:
                ds_ = [dispersion.delay_samples(1, lab, refx, srx) for lab in labels]
                unit_sweep = max(ds_) - min(ds_)
                if unit_sweep == 0:
                    continue
                res.hits["band straddling 0 Hz"] += 1
            for sweep in (0.0, 0.4, -0.4, 2.3, -2.3, N - 0.5, -(N - 0.5), N + 2.3, -(N + 2.3), 3 * N + 0.7, 1.0):
                dmv = float(F(sweep) / unit_sweep)
                dm = pb.DM(dmv)
                sub = {"rate": rate, "ref": refname, "sweep": sweep, "dm": dmv}
                res.state((cls, nchan, case["align"], N, case["start"], rate, refname, sweep))
                exact = [dispersion.delay_samples(F(dmv), lab, refx, srx) for lab in labels]
                if any(dispersion.near_half_integer(d) for d in exact):
                    res.skipped["a channel delay within 1e-9 of a half-integer (rounding direction open)"] += 1
                    continue
                r = [round_half_even(d) for d in exact]
                one_incoh(res, case, z, zdata, dm, ref, r, N, T0, srx, sub)
    # history on ONE signal: use it, re-assign sample_rate, dedisperse again == the same call on a freshly built signal
    if cls in ("RadioSignal", "IntensitySignal", "FullStokesSignal") and N >= 6:
        z0 = factory.make_encoded(cls, N, nchan=nchan, extra=extra, rate_name="1kHz", start_name=case["start"], fc=1.4 * u.GHz,
                                  align=case["align"], chan_bw=10 * u.MHz)
        obj = type(z0).like(z0)
        us_ = dispersion.delay_samples(1, hz(z0.min_freq), hz(z0.max_freq), hz(z0.sample_rate))
        dmq = pb.DM(float(F(23, 10) / us_)) if us_ else pb.DM(1.0)
        _ = (pb.incoherent_dedispersion(obj, dmq, ref_freq=obj.max_freq), obj.dt, obj.time_length)
        for factor in (0.5, 4):
            obj.sample_rate = obj.sample_rate * factor
            fresh = type(z0).like(z0, sample_rate=obj.sample_rate)
            try:
                a, b_ = (pb.incoherent_dedispersion(o_, dmq, ref_freq=o_.max_freq) for o_ in (obj, fresh))
            except Exception as e:
                res.violation("incoherent|assignment history raised", f"{type(e).__name__}: {e}", case, {"factor": factor})
                break
            res.transitions += 2
            same_t = (a.start_time is None and b_.start_time is None) or (a.start_time is not None and b_.start_time is not None
                                                                          and T(a.start_time) == T(b_.start_time))
            if a.shape != b_.shape or not np.array_equal(np.asarray(a.data), np.asarray(b_.data)) or not same_t:
                res.violation("incoherent|assignment history|stale sample spacing", f"after use and assigning sample_rate x {factor}, "
                              f"the result (shape {a.shape}, start {a.start_time}) differs from that of a freshly built signal "
                              f"(shape {b_.shape}, start {b_.start_time})", case, {"factor": factor})
                break
        else:
            res.hits["sample_rate assigned between dedispersions"] += 1
        # a user-defined subclass of the class is a class of its own: the type is kept
        Sub = type("My" + cls, (getattr(pb, cls),), {})
        try:
            zs = Sub.like(z0)
            o_s, o_p = pb.incoherent_dedispersion(zs, dmq, ref_freq=zs.max_freq), pb.incoherent_dedispersion(z0, dmq, ref_freq=z0.max_freq)
            res.transitions += 2
            if type(o_s) is not Sub or not np.array_equal(np.asarray(o_s.data), np.asarray(o_p.data)):
                res.violation("incoherent|user subclass|type", f"input of type {Sub.__name__} (a subclass of {cls}) came back as "
                              f"{type(o_s).__name__}", case, None)
            else:
                res.hits["user-defined subclass kept"] += 1
        except Exception as e:
            res.violation("incoherent|user subclass|raised", f"{type(e).__name__}: {e}", case, None)
        history.reuse_buffer(res, case, z0, [("incoherent_dedispersion", lambda q_: pb.incoherent_dedispersion(q_, dmq, ref_freq=q_.max_freq))],
                             "incoherent")
    # Dask-backed twin, channels chunked unequally: same samples, same metadata (the per-sample tracing above is the reference)
    if nchan >= 3 and N >= 6:
        import dask.array as da
        z = factory.make_encoded(cls, N, nchan=nchan, extra=extra, rate_name="1MHz", start_name=case["start"], fc=400 * u.MHz,
                                 align=case["align"])
        for chunks in ((1, nchan - 1), (nchan - 2, 1, 1), (2,) + (1,) * (nchan - 2)):
            if sum(chunks) != nchan:
                continue
            lay = ((N,), chunks) + tuple((s_,) for s_ in z.shape[2:])
            zd = type(z).like(z, da.from_array(np.asarray(z.data), chunks=lay))
            unit_sweep = dispersion.delay_samples(1, hz(z.min_freq), hz(z.center_freq), hz(z.sample_rate)) - \
                dispersion.delay_samples(1, hz(z.max_freq), hz(z.center_freq), hz(z.sample_rate))
            for sweep in (2.3, -3.6):
                dm = pb.DM(float(F(sweep) / unit_sweep))
                try:
                    a, b_ = pb.incoherent_dedispersion(z, dm), pb.incoherent_dedispersion(zd, dm)
                    bv = np.asarray(b_.data.compute())
                except Exception as e:
                    res.violation("incoherent|dask raised", f"chunks {chunks}: {type(e).__name__}: {e}", case, {"chunks": list(chunks)})
                    continue
                res.transitions += 2
                if bv.shape != a.shape or not np.array_equal(bv, np.asarray(a.data)) or \
                        (a.start_time is not None and T(a.start_time) != T(b_.start_time)):
                    res.violation("incoherent|dask differs", f"Dask-backed input with channel chunks {chunks} gives different samples / "
                                  f"start than the NumPy-backed input", case, {"chunks": list(chunks), "sweep": sweep})
            res.hits["dask-backed input with unequal channel chunks"] += 1
    res.sample({"cls": cls, "nchan": nchan, "align": case["align"], "N": N, "start": case["start"],
                "example": "sweep 2.3 samples, ref above band"}, 1)


def one_incoh(res, case, z, zdata, dm, ref, r, N, T0, srx, sub):
    site = "incoherent"
    kw = {} if ref is None else {"ref_freq": ref}
    try:
        out = pb.incoherent_dedispersion(z, dm, **kw)
        exc = None
    except Exception as e:
        out, exc = None, e
    res.transitions += 1
    res.traces += 1
    spread = max(r) - min(r)
    inspan = N - max(0, max(r)) - max(0, -min(r))      # instants inside the input's own span with all sources in range
    if exc is not None or len(out) == 0:
        if inspan >= 1:
            res.violation(f"{site}|nothing returned", f"{inspan} instants inside the input span have in-range sources in "
                          f"every channel (rounded delays {r}), but the call "
                          f"{'raised ' + type(exc).__name__ + ': ' + str(exc) if exc else 'returned an empty signal'} [{sub}]",
                          case, sub)
        elif exc is not None:
            # nothing can be returned: that is an EMPTY signal of the same type (the statement: "only samples with in-range
            # sources in every channel are returned"), not an exception from inside NumPy
            res.violation(f"{site}|no valid instant: raised instead of returning an empty signal", f"rounded delays {r}, N={N}: "
                          f"{type(exc).__name__}: {exc} [{sub}]", case, sub)
        else:
            if type(out) is not type(z) or out.shape[1:] != z.shape[1:]:
                res.violation(f"{site}|empty result has another type / sample shape", f"{type(out).__name__} {out.shape} [{sub}]", case, sub)
            res.hits["no valid instant in span: empty signal"] += 1
        return
    if spread >= N:
        res.violation(f"{site}|samples without sources", f"returned {len(out)} samples although no instant has in-range "
                      f"sources in every channel (delays {r}, N={N}) [{sub}]", case, sub)
        return
    if type(out) is not type(z) or out.dtype != z.dtype:
        res.violation(f"{site}|type", f"{type(out).__name__}/{out.dtype} [{sub}]", case, sub)
        return
    if out.shape[1:] != z.shape[1:]:
        res.violation(f"{site}|trailing shape", f"{out.shape} from {z.shape} [{sub}]", case, sub)
        return
    for k in ("center_freq", "chan_bw", "freq_align", "sample_rate"):
        if getattr(out, k) != getattr(z, k):
            res.violation(f"{site}|{k}", f"{k} changed: {getattr(z, k)!r} -> {getattr(out, k)!r} [{sub}]", case, sub)
    if hasattr(z, "pol_type") and out.pol_type != z.pol_type:
        res.violation(f"{site}|pol_type", "pol_type changed", case, sub)
    y = np.asarray(out.data)
    src_t = np.floor(np.real(y) / 1024).astype(np.int64)                 # source time index of every output sample
    elem = (np.real(y) - src_t * 1024).astype(np.int64)
    ne = int(np.prod(z.shape[1:]))
    want_elem = np.arange(ne).reshape((1,) + z.shape[1:])
    if np.any(elem != want_elem) or np.any(src_t < 0) or np.any(src_t >= N):
        res.violation(f"{site}|element mix-up", f"an output sample was not taken from the same channel/element of the input "
                      f"[{sub}]", case, sub)
        return
    # bit-exact identity with the named source sample (also the imaginary part)
    flat_idx = np.broadcast_to(want_elem, y.shape)
    if not np.array_equal(y, zdata.reshape(N, -1)[src_t, flat_idx].reshape(y.shape)):
        res.violation(f"{site}|values", f"output samples are not bit-identical to input samples [{sub}]", case, sub)
        return
    M = len(out)
    rr = np.array(r, dtype=np.int64).reshape((1, len(r)) + (1,) * (y.ndim - 2))
    base = src_t - rr - np.arange(M).reshape((M,) + (1,) * (y.ndim - 1))   # must be one constant: the instant offset
    c = int(base.flat[0])
    if np.any(base != c):
        bad = np.argwhere(base != c)[0]
        res.violation(f"{site}|misaligned", f"output sample k={int(bad[0])} channel {int(bad[1])} comes from input index "
                      f"{int(src_t[tuple(bad)])}; relative alignment requires index {c + int(bad[0]) + r[int(bad[1])]} "
                      f"(rounded delays {r}) [{sub}]", case, sub)
        return
    res.hits["every returned sample traced"] += 1
    if (out.start_time is None) != (T0 is None):
        res.violation(f"{site}|start none-ness", f"start_time {out.start_time!r} [{sub}]", case, sub)
        return
    if T0 is not None:
        off = (T(out.start_time) - T0) * 86400 * srx          # output start in input samples
        tol = (2 * ULP_T + F(abs(c) + 1, 2 ** 50) / srx / 86400) * 86400 * srx
        if not res.ratio("absolute alignment err / budget", abs(off - c), tol):
            res.violation(f"{site}|absolute time", f"output sample at T = start + k/sr holds the input sample of channel i at "
                          f"T + ({c} - {float(off):.6g} + r_i) samples instead of T + r_i (r = {r}) [{sub}]", case, sub)
            return
        if c != 0:
            res.hits["start_time moved"] += 1
    else:
        res.hits["no start time (relative alignment only)"] += 1
    if spread:
        res.hits["channels realigned by different delays"] += 1
    if min(r) < 0 < max(r):
        res.hits["delays of both signs (reference inside band)"] += 1
    if min(r) > 0 or max(r) < 0:
        res.hits["all delays one sign (reference outside band)"] += 1
    res.info["example_window_fraction"] = f"{M}/{max(1, N - spread)}"
    res.outcome((M, c, tuple(r)))


def check_case(case):
    res = report.Result()
    (law_case if case["kind"] == "law" else incoh_case)(case, res)
    return res


def main(argv=None):
    return report.run_check(
        PID, gen_cases=gen_cases, check_case=check_case, describe=describe,
        required_hits=["buffer overwritten between calls", "delay law triples", "infinite reference frequency", "frequencies in integer containers", "band straddling 0 Hz", "DM in a non-default unit", "negative DM", "every returned sample traced",
                       "start_time moved", "no start time (relative alignment only)",
                       "channels realigned by different delays", "delays of both signs (reference inside band)",
                       "all delays one sign (reference outside band)", "no valid instant in span: empty signal", "dask-backed input with unequal channel chunks", "DM object updated in place", "sample_rate assigned between dedispersions", "user-defined subclass kept"],
        assumptions=["K = 1/2.41e-4 s MHz^2 cm^3/pc exactly as stated; float evaluation budget 16 ulp of the larger term",
                     "completeness is weak by design: any sound window is accepted (the statement only forbids out-of-range sources)",
                     "labels whose exact delay is within 1e-9 of a half-integer are unconstrained"],
        argv=argv)


if __name__ == "__main__":
    sys.exit(main())
