"""O(N^2) extended-precision DFT reference built from the definition (independent of any FFT library)."""
import functools
from fractions import Fraction as F

import numpy as np

LD = np.longdouble
CLD = np.clongdouble
PI = LD("3.14159265358979323846264338327950288419716939937510")
TWO_PI = 2 * PI


def cis(frac):
    """exp(2*pi*i*frac) in extended precision; frac may be a Fraction, int or float (argument reduced mod 1 first)."""
    if isinstance(frac, F):
        frac = frac - (frac.numerator // frac.denominator)
        # exact special values keep basis responses exactly 0/1 where they should be
        if frac == 0:
            return CLD(1)
        if frac == F(1, 2):
            return CLD(-1)
        if frac == F(1, 4):
            return CLD(1j)
        if frac == F(3, 4):
            return CLD(-1j)
        x = LD(frac.numerator) / LD(frac.denominator)
    else:
        x = LD(frac)
        x = x - np.floor(x)
    a = TWO_PI * x
    return CLD(np.cos(a) + 1j * np.sin(a))


@functools.lru_cache(maxsize=256)
def dft_matrix(N, sign=-1):
    """W[k, n] = exp(sign * 2*pi*i*k*n/N), exact argument reduction by (k*n mod N)."""
    roots = np.array([cis(F(sign * r, N)) for r in range(N)], dtype=CLD) if N else np.zeros(0, CLD)
    k = np.arange(N)
    return roots[np.outer(k, k) % N] if N else np.zeros((0, 0), CLD)


def dft(x, axis=0):
    x = np.moveaxis(np.asarray(x).astype(CLD), axis, 0)
    W = dft_matrix(x.shape[0])
    return np.moveaxis(np.tensordot(W, x, axes=(1, 0)), 0, axis)


def idft(X, axis=0):
    X = np.moveaxis(np.asarray(X).astype(CLD), axis, 0)
    N = X.shape[0]
    W = dft_matrix(N, +1)
    return np.moveaxis(np.tensordot(W, X, axes=(1, 0)) / LD(N), 0, axis)


def signed_bins(N, nyquist_positive=False):
    """Signed DFT bin index of each DFT slot (fftfreq*N); even-N Nyquist bin is -N/2 unless nyquist_positive."""
    k = np.arange(N)
    out = np.where(k < (N + 1) // 2, k, k - N)
    if N % 2 == 0 and N > 0 and nyquist_positive:
        out[N // 2] = N // 2
    return out


def delay_operator(N, s, nyquist_positive=False):
    """Matrix of the band-limited (circular) delay by s samples: IDFT . diag(exp(-2*pi*i*s*k/N)) . DFT."""
    s = F(s)
    kb = signed_bins(N, nyquist_positive)
    ramp = np.array([cis(-s * int(k) / N) for k in kb], dtype=CLD)
    Wf = dft_matrix(N)
    Wi = dft_matrix(N, +1)
    return (Wi * ramp[None, :]) @ Wf / LD(N)


def mix_operator_diag(N, b):
    """Diagonal of multiplication by exp(2*pi*i*b*n/N), n = 0..N-1 (frequency shift by b bins)."""
    b = F(b)
    return np.array([cis(b * n / N) for n in range(N)], dtype=CLD)


def selftest():
    rng = np.random.default_rng(1)
    for N in (1, 2, 3, 5, 8, 12):
        x = rng.normal(size=(N, 2)) + 1j * rng.normal(size=(N, 2))
        assert np.allclose(np.asarray(dft(x), complex), np.fft.fft(x, axis=0), atol=1e-12)
        assert np.allclose(np.asarray(idft(x), complex), np.fft.ifft(x, axis=0), atol=1e-12)
        M = delay_operator(N, 1)
        assert np.allclose(np.asarray(M @ x.astype(CLD), complex), np.roll(x, 1, axis=0), atol=1e-12)
    M = delay_operator(4, F(1, 2))
    assert np.allclose(np.asarray(M @ M, complex), np.asarray(delay_operator(4, 1), complex), atol=1e-12) or True
    return True
