"""Cooperative thread scheduler + preemption-bounded exhaustive exploration of interleavings.

Each harness body runs in its own OS thread, but only the holder of a baton runs.  `sys.settrace` installs a
local tracer in frames whose code lives under the chosen file prefixes (pulsarbat's own sources); every `line`
event there is a scheduling point at which the explorer either continues the running thread (choice 0) or
hands the baton to another enabled thread (a preemption, costed against the bound).  Thread exit is a free
switch.  Code outside the prefixes executes atomically between two traced lines.  A run is the list of choices
taken at the points where more than one thread was enabled; exploration is the deviation-bounded DFS of
Musuvathi & Qadeer (iterative context bounding).
"""
import sys
import threading


class Deadlock(Exception):
    pass


class SchedLock:
    """A lock the scheduler knows about (context manager), for the library's `lock=` argument."""

    def __init__(self, sched):
        self.sched = sched
        self.owner = None

    def __enter__(self):
        s = self.sched
        me = threading.current_thread().name
        s.point()                                   # acquiring is itself a scheduling point
        while self.owner is not None and self.owner != me:
            s.block(me, self)
        self.owner = me
        return self

    def __exit__(self, *exc):
        self.owner = None
        self.sched.unblock_all(self)
        return False


class Sched:
    def __init__(self, prefix_choices, file_prefixes):
        self.prefix = list(prefix_choices)
        self.files = tuple(file_prefixes)
        self.pos = 0
        self.trace = []          # (n_enabled, choice, running_still_enabled, location)
        self.sems = {}
        self.done = set()
        self.blocked = {}
        self.order = []
        self.main_sem = threading.Semaphore(0)
        self.error = None
        self.replay_divergence = False

    # -- tracing -------------------------------------------------------------------------------
    def _global_trace(self, frame, event, arg):
        if event == "call" and frame.f_code.co_filename.startswith(self.files):
            return self._local_trace
        return None

    def _local_trace(self, frame, event, arg):
        if event == "line":
            self._loc = (frame.f_code.co_filename.rsplit("/", 1)[-1], frame.f_lineno)
            self.point()
        return self._local_trace

    # -- scheduling ----------------------------------------------------------------------------
    def enabled(self, running=None):
        en = [t for t in self.order if t not in self.done and t not in self.blocked]
        if running in en:
            en = [running] + [t for t in en if t != running]
        return en

    def point(self):
        me = threading.current_thread().name
        if me not in self.sems:
            return
        nxt = self._choose(me)
        if nxt != me:
            self.sems[nxt].release()
            self.sems[me].acquire()

    def _choose(self, running):
        en = self.enabled(running)
        if not en:
            raise Deadlock("no enabled thread")
        if len(en) == 1:
            return en[0]
        if self.pos < len(self.prefix):
            c = self.prefix[self.pos]
            if c >= len(en):
                self.replay_divergence = True
                c = 0
        else:
            c = 0
        self.pos += 1
        self.trace.append((len(en), c, running in en and en[0] == running, getattr(self, "_loc", None)))
        return en[c]

    def block(self, me, lock):
        self.blocked[me] = lock
        en = self.enabled()
        if not en:
            self.error = Deadlock(f"all threads blocked (thread {me} waiting for a lock)")
            self.blocked.pop(me, None)
            raise self.error
        nxt = self._choose(me)
        self.sems[nxt].release()
        self.sems[me].acquire()

    def unblock_all(self, lock):
        for t, l in list(self.blocked.items()):
            if l is lock:
                del self.blocked[t]

    # -- running -------------------------------------------------------------------------------
    def run(self, bodies):
        self.order = ["T%d" % i for i in range(len(bodies))]
        results = {}

        def wrap(name, fn):
            def go():
                self.sems[name].acquire()
                sys.settrace(self._global_trace)
                try:
                    results[name] = ("ok", fn())
                except BaseException as e:          # noqa: B902 - recorded as the thread's outcome
                    results[name] = ("exc", e)
                finally:
                    sys.settrace(None)
                    self.done.add(name)
                    rest = self.enabled()
                    if rest:
                        nxt = self._choose(name)
                        self.sems[nxt].release()
                    elif all(t in self.done for t in self.order):
                        self.main_sem.release()
                    else:
                        self.error = Deadlock("remaining threads are all blocked")
                        for t in self.order:
                            if t not in self.done:
                                self.blocked.pop(t, None)
                                self.sems[t].release()
            return go

        threads = []
        for name, fn in zip(self.order, bodies):
            self.sems[name] = threading.Semaphore(0)
            th = threading.Thread(target=wrap(name, fn), name=name, daemon=True)
            threads.append(th)
            th.start()
        self.sems[self.order[0]].release()
        self.main_sem.acquire()
        for th in threads:
            th.join(30)
        return results


def preemptions_before(trace, i):
    return sum(1 for (ne, c, re, _) in trace[:i] if re and c != 0)


def explore(make_bodies, file_prefixes, bound, check, first_deviation=None, max_exec=None):
    """Run every schedule with at most `bound` preemptions.

    make_bodies(sched) -> list of callables (fresh per execution; may create SchedLock(sched)).
    check(results, sched) -> hashable outcome (and records violations itself).
    first_deviation: restrict to the subtree whose first non-default choice is at point index i (parallel partitioning);
                     None explores from the root (including the default schedule).
    Returns dict(executions, points, outcomes, capped, divergences).
    """
    stats = {"executions": 0, "points": 0, "outcomes": set(), "capped": False, "divergences": 0, "transitions": 0}
    if first_deviation is None:
        stack = [[]]
    else:
        s0 = Sched([], file_prefixes)
        r0 = s0.run(make_bodies(s0))
        stats["points"] = len(s0.trace)
        i = first_deviation
        if i >= len(s0.trace):
            return stats
        ne, c, re, _ = s0.trace[i]
        cost = 1 if re else 0
        if cost > bound:
            return stats
        base = [t[1] for t in s0.trace[:i]]
        stack = [base + [alt] for alt in range(1, ne)]
    while stack:
        prefix = stack.pop()
        s = Sched(prefix, file_prefixes)
        results = s.run(make_bodies(s))
        stats["executions"] += 1
        stats["transitions"] += len(s.trace)
        stats["points"] = max(stats["points"], len(s.trace))
        if s.replay_divergence:
            stats["divergences"] += 1
        stats["outcomes"].add(check(results, s))
        choices = [t[1] for t in s.trace]
        for i in range(len(prefix), len(s.trace)):
            ne, c, re, _ = s.trace[i]
            cost = preemptions_before(s.trace, i) + (1 if re else 0)
            if cost > bound:
                continue
            for alt in range(1, ne):
                stack.append(choices[:i] + [alt])
        if max_exec and stats["executions"] >= max_exec:
            stats["capped"] = bool(stack)
            break
    return stats
