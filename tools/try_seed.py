#!/usr/bin/env python3
"""try_seed.py <PID> <A|B|...> [check ...]

Confirms a sub-agent's seeded change independently and runs our checks against it:
  1. in the agent's scratch worktree /tmp/seedwt/<PID>: patch applies on a clean tree, pinned suite result unchanged
     (217 pass + the known 7 failures; after the phase fix: whatever /repo HEAD gives), demo FAILS with, PASSES without;
  2. apply the patch to /repo, run the named quick checks (default: the property's own), revert /repo;
  3. store /verif/seeded/<PID>-<X>/{patch.diff, demo.py, notes.md, meta.json}.
"""
import json
import os
import re
import shutil
import subprocess
import sys

pid, var = sys.argv[1], sys.argv[2]
checks = sys.argv[3:] or [pid.lower()]
wt = f"/tmp/seedwt/_try_{pid}_{var}"
src = f"/root/scratch/seeds/{pid}/{var}"
dst = f"/verif/seeded/{pid}-{var}"
env = dict(os.environ, PYTHONPATH=wt)


def sh(cmd, cwd=None, env=None, timeout=3600):
    r = subprocess.run(cmd, shell=True, cwd=cwd, env=env, capture_output=True, text=True, timeout=timeout)
    return r.returncode, (r.stdout + r.stderr)


def suite(where):
    rc, out = sh("/venv/bin/python -m pytest -q -p no:cacheprovider --timeout=900 -n 8 -W ignore -rf 2>&1 | "
                 "grep -E '^FAILED|passed|failed'", cwd=where, env=dict(os.environ, PYTHONPATH=where))
    failed = sorted(re.findall(r"^FAILED (\S+)", out, re.M))
    m = re.search(r"(\d+) passed", out)
    return int(m.group(1)) if m else -1, failed


sh(f"git -C /repo worktree remove --force {wt}")
rc, out = sh(f"git -C /repo worktree add -q --detach {wt} HEAD")
assert rc == 0, out
import atexit
atexit.register(lambda: sh(f"git -C /repo worktree remove --force {wt}"))
# run the demo from inside the worktree (some demos locate tests/data relative to their own path)
wsrc = f"{wt}/seed/{var}"
os.makedirs(os.path.dirname(wsrc), exist_ok=True)
shutil.copytree(src, wsrc, dirs_exist_ok=True)
meta = {"property": pid, "variant": var, "source": "independent sub-agent working only from the property text"}
assert sh("git status --porcelain pulsarbat", cwd=wt)[1].strip() == "", "worktree not clean"
base_pass, base_failed = suite(wt)
rc, out = sh(f"git apply --check {src}/patch.diff", cwd=wt)
assert rc == 0, "patch does not apply: " + out
sh(f"git apply {src}/patch.diff", cwd=wt)
try:
    mp, mf = suite(wt)
    rc_demo_mut, out_demo_mut = sh(f"/venv/bin/python {wsrc}/demo.py", cwd=wsrc, env=env)
finally:
    sh("git checkout -- pulsarbat", cwd=wt)
rc_demo_clean, out_demo_clean = sh(f"/venv/bin/python {wsrc}/demo.py", cwd=wsrc, env=env)
meta["suite_clean"] = {"passed": base_pass, "failed": base_failed}
meta["suite_with_change"] = {"passed": mp, "failed": mf}
meta["tests_unchanged"] = (mp == base_pass and mf == base_failed)
meta["demo_with_change"] = {"exit": rc_demo_mut, "tail": out_demo_mut[-400:]}
meta["demo_clean"] = {"exit": rc_demo_clean, "tail": out_demo_clean[-200:]}
meta["confirmed"] = bool(meta["tests_unchanged"] and rc_demo_mut != 0 and rc_demo_clean == 0)
print(f"[seed {pid}-{var}] tests unchanged={meta['tests_unchanged']} ({mp} passed) demo mutated exit={rc_demo_mut} "
      f"clean exit={rc_demo_clean} -> confirmed={meta['confirmed']}")

# run our checks against it on /repo
assert sh("git -C /repo status --porcelain --untracked-files=no")[1].strip() == "", "/repo dirty"
rc, out = sh(f"git -C /repo apply {src}/patch.diff")
assert rc == 0, "patch does not apply to /repo: " + out
results = {}
try:
    for c in checks:
        rc, out = sh(f"./run_check.sh {c} quick --no-evidence", cwd="/verif")
        sites = re.findall(r"^    site: (.*)$", out, re.M)
        results[c] = {"exit": rc, "violation_lines": len(re.findall(r"^VIOLATION", out, re.M)), "sites": sites[:12]}
        print(f"[seed {pid}-{var}] check {c}: exit={rc} violations={results[c]['violation_lines']}")
        for s_ in sites[:6]:
            print("      ", s_)
        msgs = re.findall(r"^    site: .*\n    (.*)$", out, re.M)
        if msgs:
            print("       e.g.", msgs[0][:300])
        if rc not in (0, 1):
            print(out[-1500:])
finally:
    sh("git -C /repo checkout -- .")
meta["checks_run"] = results
meta["detected_by"] = [c for c, r in results.items() if r["exit"] == 1]
notes = open(f"{src}/notes.md").read() if os.path.exists(f"{src}/notes.md") else ""
meta["needs_to_manifest"] = notes[:1500]
meta["what_we_ran"] = ("pinned suite in the scratch worktree with and without the change; demo.py with and without; "
                       "quick checks " + ", ".join(checks) + " with the patch applied to /repo (git apply; reverted with "
                       "git checkout -- .)")
if meta["confirmed"]:
    os.makedirs(dst, exist_ok=True)
    for f in ("patch.diff", "demo.py", "notes.md"):
        if os.path.exists(f"{src}/{f}"):
            shutil.copy(f"{src}/{f}", f"{dst}/{f}")
    json.dump(meta, open(f"{dst}/meta.json", "w"), indent=1)
    print(f"[seed {pid}-{var}] stored in {dst}; detected_by={meta['detected_by']}")
else:
    print(f"[seed {pid}-{var}] NOT confirmed, not stored")
