"""C10 -- concatenate is the exact inverse of splitting and refuses non-contiguous pieces.

Enumerated: every multiset of <= 3 cut points (empty pieces included), every pattern of missing start times,
every grouping (associativity), both axis spellings, on every class x length/nchan x alignment x rate; plus
EVERY sequence of 2-3 (4 along frequency) index ranges of a small signal -- contiguous or not -- so that gaps,
overlaps, swaps and compensating gap+overlap are all visited; plus metadata perturbations.
Oracle: bit-identical data, exact-rational start time and labels; non-contiguous => any exception.
"""
import itertools
import sys
from fractions import Fraction as F

import numpy as np
import astropy.units as u

from pbmc import bind_repo, report, factory
from pbmc.exact import time_days as T, hz, ULP_T

pb = bind_repo()
PID = "C10"
REL = F(1, 2 ** 52)
A = {"bottom": F(0), "center": F(1, 2), "top": F(1)}

BOUNDS = {
    "quick": dict(Ls=[1, 4, 6], rates=["1mHz", "1Hz", "1kHz", "third_MHz", "1GHz", "3.7GHz"], nchans=[2, 3, 4, 6],
                  seqL=4, seq_rates=["1Hz", "3.7GHz"]),
    "thorough": dict(Ls=[1, 2, 4, 6, 7], rates=["1mHz", "third_Hz", "1Hz", "1kHz", "third_MHz", "800MHz", "1GHz", "3.7GHz"],
                     nchans=[2, 3, 4, 5, 6, 8], seqL=5, seq_rates=["1mHz", "1Hz", "third_MHz", "3.7GHz"]),
}


def describe(tier):
    b = BOUNDS[tier]
    return {
        "bounds": {"time lengths": b["Ls"], "rates": b["rates"], "nchan": b["nchans"], "cut points": "every multiset of <= 3 in [0, L]",
                   "missing-start patterns": "all 2^pieces", "groupings": "all 2^(k-1) contiguous groupings + left/right folds",
                   "range sequences": f"all sequences of 2 and 3 ranges on length {b['seqL']} (time), 2-4 non-empty ranges (freq)"},
        "alphabet": ["concatenate(pieces, axis=0|'time'|-ndim|np.int64(0) / 1|'freq'|1-ndim|np.int64(1))", "nested concatenate", "perturbed piece: sample_rate, chan_bw, "
                     "center_freq, start_time, class", "empty list", "non-Signal"],
        "rule": "state = (class, rate, L/nchan, align, ranges, start mask, grouping); one real concatenate per state; valid "
                "sequences must reproduce data bit-exactly, start time (exact rational, (pieces+1) ulp_T) and labels; sequences "
                "whose start-bearing non-empty pieces are not contiguous must raise",
    }


def gen_cases(tier, seed):
    b = BOUNDS[tier]
    for ci, cls in enumerate(factory.CLASSES):
        for ri, rate in enumerate(b["rates"]):
            for L in b["Ls"]:
                # quick: the longest length on half of the (class, rate) pairs, groupings on every other rate
                if tier == "quick" and L == max(b["Ls"]) and (ci + ri) % 2:
                    continue
                yield {"kind": "split_time", "cls": cls, "rate": rate, "L": L,
                       "align": ["bottom", "center", "top"][(len(cls) + L) % 3],
                       "assoc": tier == "thorough" or (ci + ri) % 3 != 1}
        for rate in b["seq_rates"]:
            yield {"kind": "seq_time", "cls": cls, "rate": rate, "L": b["seqL"]}
    for cls in factory.RADIO:
        for n in b["nchans"]:
            for align in ("bottom", "center", "top"):
                kmax = 4 if (n <= 4 and (tier == "thorough" or cls in ("RadioSignal", "DualPolarizationSignal"))) else 3
                if tier == "quick" and n >= 6:
                    kmax = 2 if cls not in ("RadioSignal", "BasebandSignal") else 3
                yield {"kind": "freq", "cls": cls, "nchan": n, "align": align, "kmax": kmax}
        yield {"kind": "perturb", "cls": cls}
    yield {"kind": "perturb", "cls": "Signal"}


def build(cls, L, rate, align="center", nchan=3, start="iso"):
    srq = factory.rate(rate)
    fc = 400 * srq if cls in ("BasebandSignal", "DualPolarizationSignal") else 1.4 * u.GHz
    return factory.make_encoded(cls, L, nchan=nchan, rate_name=rate, start_name=start, fc=fc, align=align,
                                chan_bw=None if cls in ("BasebandSignal", "DualPolarizationSignal") else 0.5 * u.MHz,
                                meta={"who": "c10"})


def labels(z):
    if not isinstance(z, pb.RadioSignal):
        return None
    sc = hz(1 * z.channel_freqs.unit)
    return [F(float(v)) * sc for v in np.atleast_1d(z.channel_freqs.value)]


def strip_start(p):
    return type(p).like(p, start_time=None)


def multisets(L, kmax=3):
    for k in range(0, kmax + 1):
        for cuts in itertools.combinations_with_replacement(range(0, L + 1), k):
            yield cuts


def check_result(res, case, sub, site, out, z, want_data, want_off, npieces, want_labels):
    """out must be: same type as z, data == want_data bit-exactly, start = z.start + want_off samples (None if want_off is None)."""
    if type(out) is not type(z):
        res.violation(f"{site}|type", f"type {type(out).__name__} [{sub}]", case, sub)
        return
    d = np.asarray(out.data)
    if d.shape != want_data.shape or d.dtype != want_data.dtype or not np.array_equal(d, want_data):
        res.violation(f"{site}|data", f"joined data differ from the original samples (shape {d.shape} vs {want_data.shape}) "
                      f"[{sub}]", case, sub)
        return
    srx = hz(z.sample_rate)
    if abs(hz(out.sample_rate) - srx) > srx * 2 * REL:
        res.violation(f"{site}|sample_rate", f"sample_rate {out.sample_rate!r} [{sub}]", case, sub)
    if want_off is None:
        if out.start_time is not None:
            res.violation(f"{site}|start appeared", f"no piece had a start time but result has {out.start_time!r} [{sub}]",
                          case, sub)
    elif out.start_time is None:
        res.violation(f"{site}|start lost", f"start time lost [{sub}]", case, sub)
    else:
        delta = F(want_off) / srx / 86400
        err = abs(T(out.start_time) - T(z.start_time) - delta)
        tol = (npieces + 1) * ULP_T + 8 * F(1, 2 ** 53) * abs(delta)
        if not res.ratio("start_time err / budget", err, tol):
            res.violation(f"{site}|start_time", f"start_time = original + {float((T(out.start_time) - T(z.start_time)) * 86400 * srx):.6g} "
                          f"samples, expected {want_off} [{sub}]", case, sub)
    if want_labels is not None:
        got = labels(out)
        scale = max(abs(want_labels[0]), abs(want_labels[-1]), hz(z.chan_bw) * len(want_labels))
        if len(got) != len(want_labels) or max(abs(g - w) for g, w in zip(got, want_labels)) > scale * 16 * REL:
            res.violation(f"{site}|labels", f"channel labels {[float(g) for g in got][:4]}.. differ from the original "
                          f"{[float(w) for w in want_labels][:4]}.. [{sub}]", case, sub)
        if abs(hz(out.chan_bw) - hz(z.chan_bw)) > hz(z.chan_bw) * 4 * REL:
            res.violation(f"{site}|chan_bw", f"chan_bw changed [{sub}]", case, sub)
    if getattr(out, "pol_type", None) != getattr(z, "pol_type", None):
        res.violation(f"{site}|pol_type", f"pol_type changed [{sub}]", case, sub)
    if out.meta != z.meta:
        res.violation(f"{site}|meta", f"meta changed [{sub}]", case, sub)


def time_model(ranges, mask):
    """(consistent_all, consistent_nonempty, offset of sample 0 or None) for pieces z[a:b], mask[i]=piece keeps start."""
    ref_all = ref_ne = None
    ok_all = ok_ne = True
    n = 0
    first = None
    for (a, b), m in zip(ranges, mask):
        if m:
            off = a - n
            if first is None:
                first = off
            if ref_all is None:
                ref_all = off
            elif off != ref_all:
                ok_all = False
            if b > a:
                if ref_ne is None:
                    ref_ne = off
                elif off != ref_ne:
                    ok_ne = False
        n += b - a
    return ok_all, ok_ne, first


def piece(z, a, b, keep=True):
    """z[a:b] (start stripped if not keep), cached on the base signal object: slicing dominates the cost otherwise."""
    cache = z.__dict__.setdefault("_c10_pieces", {})
    key = (a, b, keep)
    if key not in cache:
        p = z[a:b]
        cache[key] = p if keep else strip_start(p)
    return cache[key]


def run_time_sequence(res, case, z, ranges, mask, axis, sub, site):
    pieces = [piece(z, a, b, m) for (a, b), m in zip(ranges, mask)]
    ok_all, ok_ne, off = time_model(ranges, mask)
    try:
        out = pb.concatenate(pieces, axis=axis)
        exc = None
    except Exception as e:
        out, exc = None, e
    res.transitions += 1
    res.traces += 1
    if not ok_ne:
        if exc is None:
            res.violation(f"{site}|non-contiguous accepted", f"pieces {ranges} (start kept: {mask}) have a gap/overlap/wrong "
                          f"order but were joined [{sub}]", case, sub)
        else:
            res.hits["non-contiguous in time rejected"] += 1
        return None
    if not ok_all:
        res.skipped["only an EMPTY piece is mis-stamped (either outcome accepted)"] += 1
        return None
    if exc is not None:
        res.violation(f"{site}|contiguous rejected", f"pieces {ranges} (start kept: {mask}): {type(exc).__name__}: {exc} "
                      f"[{sub}]", case, sub)
        return None
    zd = np.asarray(z.data)
    want = np.concatenate([zd[a:b] for a, b in ranges], axis=0)
    check_result(res, case, sub, site, out, z, want, off, len(ranges), labels(z))
    return out


def split_time_case(case, res):
    cls, L = case["cls"], case["L"]
    z = build(cls, L, case["rate"], align=case["align"], nchan=4 if L % 2 == 0 else 3)
    for cuts in multisets(L):
        edges = [0] + list(cuts) + [L]
        ranges = [(edges[i], edges[i + 1]) for i in range(len(edges) - 1)]
        k = len(ranges)
        for mask in itertools.product([True, False], repeat=k):
            axis = [0, "time", -z.ndim, np.int64(0)][(sum(mask) + len(cuts)) % 4]    # all spell the time axis
            sub = {"cuts": list(cuts), "start_kept": list(mask), "axis": repr(axis)}
            res.state((cls, case["rate"], L, cuts, mask))
            out = run_time_sequence(res, case, z, ranges, mask, axis, sub, "split/join time")
            if any(b == a for a, b in ranges):
                res.hits["empty piece"] += 1
            if not all(mask):
                res.hits["piece without start time"] += 1
            if not mask[0] and any(mask):
                res.hits["leading start-less piece (start extrapolated backwards)"] += 1
        # associativity: every contiguous grouping, all pieces keeping start / alternating / none
        if not case.get("assoc", True):
            continue
        for mask in ([True] * k, [i % 2 == 0 for i in range(k)], [False] * k):
            ps = [piece(z, a, b, m) for (a, b), m in zip(ranges, mask)]
            _, _, off = time_model(ranges, mask)
            for grouping in itertools.product([0, 1], repeat=k - 1):     # 1 = break between groups
                groups, cur = [], [ps[0]]
                for g, p in zip(grouping, ps[1:]):
                    if g:
                        groups.append(cur)
                        cur = [p]
                    else:
                        cur.append(p)
                groups.append(cur)
                sub = {"cuts": list(cuts), "start_kept": list(mask), "grouping": list(grouping)}
                try:
                    inner = [pb.concatenate(g) if len(g) > 1 else g[0] for g in groups]
                    out = pb.concatenate(inner)
                except Exception as e:
                    res.violation("associativity|raised", f"{type(e).__name__}: {e} [{sub}]", case, sub)
                    continue
                res.transitions += 1 + sum(len(g) > 1 for g in groups)
                res.traces += 1
                res.state((cls, case["rate"], L, cuts, tuple(mask), grouping))
                check_result(res, case, sub, "associativity", out, z, np.asarray(z.data), off, k, labels(z))
                res.hits["grouping"] += 1
            if k >= 3:
                lf = ps[0]
                for p in ps[1:]:
                    lf = pb.concatenate([lf, p])
                rf = ps[-1]
                for p in reversed(ps[:-1]):
                    rf = pb.concatenate([p, rf])
                res.transitions += 2 * (k - 1)
                check_result(res, case, {"fold": "left", "cuts": list(cuts)}, "associativity", lf, z, np.asarray(z.data), off, k, labels(z))
                check_result(res, case, {"fold": "right", "cuts": list(cuts)}, "associativity", rf, z, np.asarray(z.data), off, k, labels(z))
    res.sample({"cls": cls, "rate": case["rate"], "L": L, "cuts": [1, 1, 4][:min(3, L)]}, 1)


def seq_time_case(case, res):
    cls, L = case["cls"], case["L"]
    z = build(cls, L, case["rate"], align="bottom", nchan=2)
    rng = [(a, b) for a in range(L + 1) for b in range(a, L + 1)]
    for seq in itertools.chain(itertools.product(rng, repeat=2),
                               itertools.product([r for r in rng if r[1] > r[0]], repeat=3)):
        k = len(seq)
        masks = list(itertools.product([True, False], repeat=k)) if k == 2 else [(True,) * 3, (True, False, True),
                                                                                  (False, True, True), (True, True, False)]
        for mask in masks:
            sub = {"ranges": [list(r) for r in seq], "start_kept": list(mask)}
            res.state((cls, case["rate"], "seq", seq, mask))
            run_time_sequence(res, case, z, list(seq), mask, 0, sub, "range sequence time")
    res.sample({"cls": cls, "rate": case["rate"], "ranges": [[0, 2], [3, 4], [2, 5]]}, 1)


def freq_case(case, res):
    cls, n, align = case["cls"], case["nchan"], case["align"]
    z = build(cls, 4, "1MHz", align=align, nchan=n)
    zd = np.asarray(z.data)
    lab = labels(z)
    rng = [(a, b) for a in range(n + 1) for b in range(a + 1, n + 1)]
    kmax = case.get("kmax", 3)
    fpieces = {r: z[:, r[0]:r[1]] for r in rng}
    for k in range(1, kmax + 1):
        for seq in itertools.product(rng, repeat=k):
            if k >= 3 and n >= 5 and sum(b - a for a, b in seq) > n + 1:
                continue
            contiguous = all(seq[i][1] == seq[i + 1][0] for i in range(k - 1))
            pieces = [fpieces[r] for r in seq]
            axis = [1, "freq", 1 - z.ndim, np.int64(1)][(k + seq[0][0] + seq[-1][1]) % 4]   # all spell the channel axis
            sub = {"ranges": [list(r) for r in seq], "axis": repr(axis)}
            res.state((cls, n, align, seq))
            try:
                out = pb.concatenate(pieces, axis=axis)
                exc = None
            except Exception as e:
                out, exc = None, e
            res.transitions += 1
            res.traces += 1
            if not contiguous:
                if exc is None:
                    res.violation("range sequence freq|non-contiguous accepted", f"channel ranges {list(seq)} are not "
                                  f"contiguous in frequency but were joined [{sub}]", case, sub)
                else:
                    res.hits["non-contiguous in frequency rejected"] += 1
                continue
            if exc is not None:
                res.violation("range sequence freq|contiguous rejected", f"{list(seq)}: {type(exc).__name__}: {exc} [{sub}]",
                              case, sub)
                continue
            a0, b1 = seq[0][0], seq[-1][1]
            check_result(res, case, sub, "split/join freq", out, z, zd[:, a0:b1], 0, k, lab[a0:b1])
            res.hits["joined along frequency"] += 1
            if k >= 3 and contiguous:
                # associativity along frequency
                o2 = pb.concatenate([pb.concatenate(pieces[:2], axis=1)] + pieces[2:], axis="freq")
                o3 = pb.concatenate(pieces[:-2] + [pb.concatenate(pieces[-2:], axis="freq")], axis=1)
                res.transitions += 4
                check_result(res, case, dict(sub, grouping="left"), "associativity freq", o2, z, zd[:, a0:b1], 0, k, lab[a0:b1])
                check_result(res, case, dict(sub, grouping="right"), "associativity freq", o3, z, zd[:, a0:b1], 0, k, lab[a0:b1])
    # joining along frequency requires equal start times; joining along time requires equal labels
    if n >= 2:
        p, q = z[:-1, :1], z[1:, 1:]
        for pieces, axis, what in (([p, q], "freq", "different start_time along freq"),
                                   ([z[:2, :n - 1], z[2:, 1:]], 0, "different labels along time")):
            res.transitions += 1
            try:
                pb.concatenate(pieces, axis=axis)
                res.violation(f"other-axis|{what} accepted", f"{what}: joined", case, {"what": what})
            except Exception:
                res.hits["other-axis mismatch rejected"] += 1
        # start-less pieces along frequency
        out = pb.concatenate([strip_start(z[:, :1]), z[:, 1:]], axis=1)
        res.transitions += 1
        check_result(res, case, {"what": "freq join, first piece start-less"}, "split/join freq", out, z, zd, 0, 2, lab)
    res.sample({"cls": cls, "nchan": n, "align": align, "ranges": [[0, 1], [1, n]]}, 1)


def perturb_case(case, res):
    cls = case["cls"]
    rates = ["1Hz", "third_MHz", "3.7GHz"]
    for rate in rates:
        z = build(cls, 6, rate, align="top", nchan=4)
        a, b_ = z[:3], z[3:]
        dt = 1 / z.sample_rate

        def expect_reject(pieces, what, axis=0):
            # every spelling of the same axis must refuse
            nd = pieces[0].ndim if len(pieces) else 1
            spell = {0: [0, "time", -nd, np.int64(0)], "time": [0, "time", -nd], 1: [1, "freq", 1 - nd, np.int64(1)],
                     "freq": ["freq", 1, 1 - nd]}.get(axis, [axis])
            if not len(pieces) or (axis == "freq" and not isinstance(pieces[0], pb.RadioSignal)):
                spell = [axis]
            for ax in spell:
                res.transitions += 1
                res.traces += 1
                res.state((cls, rate, what, repr(ax)))
                try:
                    out = pb.concatenate(pieces, axis=ax)
                except Exception:
                    res.hits["perturbed piece rejected"] += 1
                    if not isinstance(ax, (str,)) and ax < 0:
                        res.hits["negative axis spelling"] += 1
                    continue
                res.violation(f"perturb|{what} accepted", f"{what} (axis={ax!r}): joined into {out!r}", case,
                              {"what": what, "rate": rate, "axis": repr(ax)})

        for k in (1, -1, 2, -2, 0.5, -0.5):
            expect_reject([a, type(b_).like(b_, start_time=b_.start_time + k * dt)], f"second piece shifted by {k} samples")
            expect_reject([type(a).like(a, start_time=a.start_time + k * dt), b_], f"first piece shifted by {k} samples")
        expect_reject([b_, a], "swapped order")
        expect_reject([z[:4], z[3:]], "overlap by one")
        expect_reject([z[:3], z[4:]], "gap of one")
        expect_reject([a, b_, a], "repeated piece")
        for f in (1 + 1e-3, 1 - 1e-3):
            expect_reject([a, type(b_).like(b_, sample_rate=b_.sample_rate * f)], f"sample_rate x {f}")
            if cls in ("RadioSignal", "IntensitySignal", "FullStokesSignal"):
                expect_reject([a, type(b_).like(b_, chan_bw=b_.chan_bw * f)], f"chan_bw x {f}")
        # a differing rate on a piece that ALSO lacks a start time (second or third piece), alone and among stamped pieces
        for f in (2, 0.5, 1 + 1e-3):
            bare = type(b_).like(b_, sample_rate=b_.sample_rate * f, start_time=None)
            expect_reject([a, bare], f"sample_rate x {f} on a piece without start time")
            expect_reject([z[:2], z[2:3], type(b_).like(b_, sample_rate=b_.sample_rate * f, start_time=None)],
                          f"sample_rate x {f} on the third piece, which has no start time")
            expect_reject([strip_start(a), bare], f"sample_rate x {f}, no piece has a start time")
        res.hits["rate mismatch on a piece without start time"] += 1
        # the start time of the first piece is the start time of the result, bit for bit (UTC - 0 s is not always exact), also for a
        # single piece; any sequence container of pieces (list, tuple, deque) along either axis
        import collections as _cl
        from astropy.time import Time
        for iso_ in ("2020-02-01T00:44:30", "2020-02-01T00:44:30.001", "2013-05-13T23:59:44.949", "2021-03-04T05:06:07.25"):
            t_ = Time(iso_, scale="utc", precision=9)
            zz = type(z).like(z, start_time=t_)
            for what, pieces in (("one piece", [zz]), ("two pieces", [zz[:2], zz[2:]]), ("three pieces", [zz[:1], zz[1:1], zz[1:]]),
                                 ("tuple", (zz[:3], zz[3:])), ("deque", _cl.deque([zz[:3], zz[3:]]))):
                res.transitions += 1
                try:
                    j = pb.concatenate(pieces)
                except Exception as e:
                    res.violation(f"container|{what}|raised", f"{type(e).__name__}: {e}", case, {"what": what})
                    continue
                if (j.start_time.jd1, j.start_time.jd2) != (zz.start_time.jd1, zz.start_time.jd2):
                    res.violation("start bit for bit|moved", f"{what} of a signal starting {iso_}: start (jd2) {zz.start_time.jd2!r} came back as "
                                  f"{j.start_time.jd2!r}", case, {"start": iso_, "what": what})
            if cls != "Signal":
                try:
                    jf = pb.concatenate(_cl.deque([zz[:, :2], zz[:, 2:]]), axis="freq")
                    if jf.shape != zz.shape:
                        res.violation("container|deque along freq|shape", f"{jf.shape}", case, None)
                except Exception as e:
                    res.violation("container|deque along freq|raised", f"{type(e).__name__}: {e}", case, None)
        res.hits["start time kept bit for bit, sequence containers"] += 1
        if cls != "Signal":
            # pieces with a trailing sample axis joined along THAT axis: displaced bands must still be refused
            zt = type(z).like(z, np.stack([np.asarray(z.data)] * 2, axis=-1)) if cls in ("RadioSignal", "IntensitySignal", "BasebandSignal") else z
            if zt.ndim >= 3:
                nd_ = zt.ndim
                for ax in (nd_ - 1, -1):
                    try:
                        j = pb.concatenate([zt, zt], axis=ax)
                        if j.shape[-1] != 2 * zt.shape[-1] or any(abs(x_ - y_) > hz(zt.chan_bw) / 10 ** 6 for x_, y_ in zip(labels(j), labels(zt))):
                            res.violation("perturb|trailing axis|valid join wrong", f"axis={ax}: {j!r}", case, {"axis": ax})
                    except Exception as e:
                        if cls not in ("FullStokesSignal", "DualPolarizationSignal"):      # (their last axis has a fixed length)
                            res.violation("perturb|trailing axis|valid join rejected", f"axis={ax}: {type(e).__name__}: {e}", case, {"axis": ax})
                    for k in (1, -2, 5):
                        expect_reject([zt, type(zt).like(zt, center_freq=zt.center_freq + k * zt.chan_bw)],
                                      f"center_freq moved by {k} channel, joined along the trailing axis", axis=ax)
                    if cls in ("RadioSignal", "IntensitySignal"):
                        expect_reject([zt, type(zt).like(zt, chan_bw=zt.chan_bw * 2)], "chan_bw x 2, joined along the trailing axis", axis=ax)
                    expect_reject([zt, type(zt).like(zt, start_time=zt.start_time + dt)], "start time moved by a sample, joined along "
                                  "the trailing axis", axis=ax)
                res.hits["joins along a trailing sample axis"] += 1
            for k in (1, -1):
                expect_reject([a, type(b_).like(b_, center_freq=b_.center_freq + k * b_.chan_bw)],
                              f"center_freq moved by {k} channel along time")
                expect_reject([z[:, :2], type(z).like(z[:, 2:], center_freq=z[:, 2:].center_freq + k * z.chan_bw)],
                              f"center_freq moved by {k} channel along freq", axis="freq")
            # the same with channels that are narrow compared with the sky frequency (centre / width = 1.4e6 and 3e9)
            for ratio in (1.4e6, 3e9):
                zw = type(z).like(z, center_freq=z.chan_bw * ratio)
                aw, bw_ = zw[:3], zw[3:]
                try:
                    j = pb.concatenate([aw, bw_])
                    if len(j) != len(zw):
                        res.violation("perturb|narrow channels|valid join wrong", f"centre/width = {ratio:g}", case, {"ratio": ratio})
                except Exception as e:
                    res.violation("perturb|narrow channels|valid join rejected", f"centre/width = {ratio:g}: {type(e).__name__}: {e}", case,
                                  {"ratio": ratio})
                for k in (1, -1, 3):
                    expect_reject([aw, type(bw_).like(bw_, center_freq=bw_.center_freq + k * bw_.chan_bw)],
                                  f"center_freq moved by {k} channel along time, centre/width = {ratio:g}")
                res.hits["narrow channels at a high sky frequency"] += 1
            other = "IntensitySignal" if cls == "RadioSignal" else "RadioSignal"
            if cls in ("RadioSignal", "IntensitySignal"):
                expect_reject([a, getattr(pb, other).like(b_)], "different class")
        else:
            zr = factory.make("RadioSignal", np.asarray(b_.data).reshape(3, -1), sample_rate=z.sample_rate,
                              start_time=b_.start_time, fc=1 * u.GHz, chan_bw=1 * u.MHz)
            if a.ndim == zr.ndim:
                expect_reject([a, zr], "different class")
            expect_reject([z[:3], z[3:]], "Signal along 'freq'", axis="freq")
        if cls != "Signal":
            # the same perturbations made by ASSIGNMENT on a piece whose labels were already read (stale-cache trap)
            for attr, val, what in (("freq_align", "bottom", "freq_align assigned top->bottom after a first join"),
                                    ("center_freq", None, "center_freq assigned +1 channel after a first join")):
                x, y = z[:3], z[3:]
                pb.concatenate([x, y])                 # first, a valid join reads every piece's labels
                _ = y.channel_freqs
                if attr == "freq_align":
                    y.freq_align = "".join(list(val))
                else:
                    y.center_freq = y.center_freq + y.chan_bw
                expect_reject([x, y], what)
                _ = x.channel_freqs
                y2 = z[3:]
                y2.sample_rate = y2.sample_rate * (1 + 1e-3)
                expect_reject([x, y2], "sample_rate assigned x(1+1e-3)")
        # the same rate / bandwidth written in another unit is the same rate; the same NUMBER in another unit is not
        x, y = z[:3], z[3:]
        for unit in (u.kHz, u.Hz, u.GHz):
            y2 = type(y).like(y, sample_rate=y.sample_rate.to(unit))
            res.transitions += 1
            try:
                j = pb.concatenate([x, y2])
                if len(j) != len(z) or not np.array_equal(np.asarray(j.data), np.asarray(z.data)):
                    res.violation("perturb|unit spelling|data", f"sample_rate in {unit}: joined data differ", case, {"unit": str(unit)})
            except Exception as e:
                res.violation("perturb|unit spelling rejected", f"second piece's sample_rate written in {unit} (same rate) was "
                              f"rejected: {type(e).__name__}: {e}", case, {"unit": str(unit), "rate": rate})
            if y.sample_rate.unit != unit:
                wrong = type(y).like(y, sample_rate=y.sample_rate.value * unit)
                expect_reject([x, wrong], f"same number, different unit ({unit}) for sample_rate")
        if cls in ("RadioSignal", "IntensitySignal", "FullStokesSignal"):
            for unit in (u.kHz, u.Hz):
                y2 = type(y).like(y, chan_bw=y.chan_bw.to(unit))
                res.transitions += 1
                try:
                    pb.concatenate([x, y2])
                except Exception as e:
                    res.violation("perturb|unit spelling rejected", f"chan_bw written in {unit} (same width) was rejected: "
                                  f"{type(e).__name__}: {e}", case, {"unit": str(unit)})
                z1 = z[:, :1]
                w = type(z1).like(z1[3:], chan_bw=z1.chan_bw.value * unit)
                if z1.chan_bw.unit != unit:
                    expect_reject([z1[:3], w], f"same number, different unit ({unit}) for chan_bw, single channel")
        res.hits["unit spellings"] += 1
        # the same instant written on another time scale is the same instant; the same READING on another scale is not
        from astropy.time import Time as _Time
        for scale in ("tai", "tt"):
            for which in (0, 1):
                px, py = z[:3], z[3:]
                if which == 0:
                    px = type(px).like(px, start_time=getattr(px.start_time, scale))
                else:
                    py = type(py).like(py, start_time=getattr(py.start_time, scale))
                res.transitions += 1
                try:
                    j = pb.concatenate([px, py])
                    d = abs(T(j.start_time.utc) - T(z.start_time)) * 86400
                    if len(j) != len(z) or not np.array_equal(np.asarray(j.data), np.asarray(z.data)) or d > F(1, 10 ** 9):
                        res.violation("perturb|time scale spelling|result", f"piece {which} stamped in {scale}: joined signal differs "
                                      f"(start off by {float(d):.3g} s)", case, {"scale": scale, "piece": which, "rate": rate})
                    else:
                        res.hits["piece stamped on another time scale"] += 1
                except Exception as e:
                    res.violation("perturb|time scale spelling rejected", f"piece {which} stamped in {scale} (same instant) was rejected: "
                                  f"{type(e).__name__}: {e}", case, {"scale": scale, "piece": which, "rate": rate})
            st = z[3:].start_time
            wrong = type(z).like(z[3:], start_time=_Time(st.jd1, st.jd2, format="jd", scale=scale))
            expect_reject([z[:3], wrong], f"same clock reading on the {scale} scale (another instant)")
        # an axis number outside the signal's dimensions (the SAME piece twice would otherwise be "joined")
        for ax_ in (-z.ndim - 1, -z.ndim - 2, z.ndim, z.ndim + 3):
            res.transitions += 1
            try:
                o_ = pb.concatenate([z, z], axis=ax_)
                res.violation("perturb|axis out of range accepted", f"concatenate([z, z], axis={ax_}) on a {z.ndim}-d signal returned shape "
                              f"{o_.shape}", case, {"axis": ax_})
            except Exception:
                res.hits["perturbed piece rejected"] += 1
        expect_reject([], "empty list")
        expect_reject([np.zeros(3), np.zeros(3)], "non-Signal")
    # far from the first piece a one-sample error must still be refused (no tolerance that grows with elapsed time)
    if cls == "Signal":
        for rate in ("1kHz", "third_MHz", "1GHz"):
            big = factory.make("Signal", np.zeros(300000, np.float32), rate_name=rate, start_name="iso")
            for k in (100003, 250001):
                for pieces, what in (([big[:k], big[k + 1:]], f"gap of one sample at {k}"), ([big[:k + 1], big[k:]], f"overlap of one at {k}"),
                                     ([big[:5], big[5:k], big[k + 2:]], f"gap of two samples at {k}, three pieces")):
                    res.transitions += 1
                    try:
                        pb.concatenate(pieces)
                        res.violation(f"perturb|far from start accepted", f"{what} ({rate}) was joined", case, {"what": what, "rate": rate})
                    except Exception:
                        res.hits["perturbed piece rejected"] += 1
            # a second piece whose sample rate differs so little that only a LONG piece shows it (>= 1 sample of drift over it)
            for eps_ in (5e-6, -8e-6, 1e-4):
                k = 100003
                tail = big[k:]
                res.transitions += 1
                try:
                    pb.concatenate([big[:k], type(tail).like(tail, sample_rate=tail.sample_rate * (1 + eps_))])
                    res.violation("perturb|sample rates differing by a few 1e-6 joined", f"second piece of {len(tail)} samples with "
                                  f"sample_rate x (1 + {eps_:g}) (a drift of {abs(eps_) * len(tail):.1f} samples over the piece) was joined "
                                  f"({rate})", case, {"eps": eps_, "rate": rate})
                except Exception:
                    res.hits["perturbed piece rejected"] += 1
            ok = pb.concatenate([big[:100003], big[100003:250001], big[250001:]])
        # a piece with very many channels whose width differs by 9e-6: its far edge is off by several whole channels
        xa = pb.RadioSignal(np.zeros((1, 4), np.float32), sample_rate=1 * u.Hz, center_freq=2 * u.Hz, chan_bw=1 * u.Hz)
        nb = 400000
        cb = 1.000009 * u.Hz
        yb = pb.RadioSignal(np.zeros((1, nb), np.float32), sample_rate=1 * u.Hz, chan_bw=cb,
                            center_freq=xa.channel_freqs[-1] + 1 * u.Hz + cb * (nb - 1) / 2)
        res.transitions += 1
        try:
            o_ = pb.concatenate([xa, yb], axis="freq")
            res.violation("perturb|channel widths differing by 9e-6 joined along frequency", f"4 channels of 1 Hz + {nb} channels of "
                          f"{cb} joined into {o_.nchan} channels labelled with chan_bw {o_.chan_bw}", case, None)
        except Exception:
            res.hits["perturbed piece rejected"] += 1
        # long spans at generic rates (offsets of 1e5 .. 1e6 s): every grouping of contiguous pieces must still re-join
        for rq, N_ in ((1 / 10.7 * u.Hz, 100000), (1e-5 * u.Hz, 40), (3 * u.Hz, 600000), (0.37 * u.Hz, 300000)):
            xs = pb.Signal(np.zeros(N_, np.int8), sample_rate=rq, start_time=factory.start("iso"))
            for c1, c2 in ((N_ * 3 // 10, N_ * 6 // 10 + 1), (N_ // 7, N_ - 3), (1, N_ // 2), (N_ // 2 + 11, N_ * 9 // 10)):
                p1, p2, p3 = xs[:c1], xs[c1:c2], xs[c2:]
                for gname, fn in (("flat", lambda: pb.concatenate([p1, p2, p3])),
                                  ("(p1 p2) p3", lambda: pb.concatenate([pb.concatenate([p1, p2]), p3])),
                                  ("p1 (p2 p3)", lambda: pb.concatenate([p1, pb.concatenate([p2, p3])]))):
                    res.transitions += 1
                    try:
                        j = fn()
                        if len(j) != N_ or abs(T(j.start_time) - T(xs.start_time)) > 2 * ULP_T:
                            res.violation("long span|re-joined signal differs", f"{gname} at {rq}: len {len(j)}", case, {"g": gname})
                    except Exception as e:
                        res.violation("long span|contiguous pieces rejected", f"cuts ({c1}, {c2}) of {N_} samples at {rq} "
                                      f"(span {float((N_ / rq).to_value(u.s)):.3g} s), grouping {gname}: {type(e).__name__}: {e}", case,
                                      {"cuts": [c1, c2], "rate": str(rq), "g": gname})
                # and a one-sample gap there must still be refused
                expect_reject_big = [xs[:c1], xs[c1 + 1:]]
                res.transitions += 1
                try:
                    pb.concatenate(expect_reject_big)
                    res.violation("long span|one-sample gap accepted", f"gap at {c1} of {N_} samples at {rq}", case, {"c1": c1, "rate": str(rq)})
                except Exception:
                    res.hits["long span"] += 1
            if len(ok) != 300000:
                res.violation("perturb|far from start valid rejected", "valid long split not rejoined", case, None)
            res.hits["one-sample error far from the start"] += 1
    res.sample({"cls": cls, "perturbations": "start_time +-1,+-2,+-1/2 sample; rate/bw x (1+-1e-3); swapped; overlap; gap"}, 1)


def check_case(case):
    res = report.Result()
    {"split_time": split_time_case, "seq_time": seq_time_case, "freq": freq_case, "perturb": perturb_case}[case["kind"]](case, res)
    return res


def main(argv=None):
    return report.run_check(
        PID, gen_cases=gen_cases, check_case=check_case, describe=describe,
        required_hits=["empty piece", "piece without start time", "leading start-less piece (start extrapolated backwards)",
                       "grouping", "non-contiguous in time rejected", "non-contiguous in frequency rejected",
                       "joined along frequency", "other-axis mismatch rejected", "perturbed piece rejected", "one-sample error far from the start", "unit spellings", "negative axis spelling", "piece stamped on another time scale", "narrow channels at a high sky frequency", "long span", "rate mismatch on a piece without start time", "joins along a trailing sample axis", "start time kept bit for bit, sequence containers"],
        assumptions=["a sequence must be rejected only if two NON-EMPTY start-bearing pieces are inconsistent by >= 1 sample "
                     "(mis-stamped empty pieces are unconstrained); rates above ~10 GHz are outside the quantifier "
                     "(Time.isclose window 40 ps)", "any exception class counts as rejection"],
        argv=argv)


if __name__ == "__main__":
    sys.exit(main())
