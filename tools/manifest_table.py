SOURCE_COMMITS = []
CHECKS = [
 {"property_id": "C01",
  "text": "Bounded exhaustive exploration on the real code: every slice triple (bounds None and [-L-2, L+2], steps up to 7) on "
          "L<=9 (quick) / 16 (thorough), every class x 7-9 rates (mHz..GHz) x start/none, fast_len, cropped time shifts, every "
          "whole-sample snippet, dedispersion crops; plus breadth-first search over pipelines of 16 crop operations to depth 3/4 "
          "with state de-duplication on (ledger, jd bits). Oracle: exact-rational ledger on the Time two-double; payload "
          "index-encoding traces pure crops bit-exactly; contains(t) against the exact half-open interval. Plus assignment histories (read derived values / assign sample_rate or start_time / use, depth 3) on one object: everything derived must follow the current attributes.",
  "note": "Trusts astropy Time (jd1, jd2) as the time representation, Python Fractions, and the independent dispersion-delay "
          "formula for dedispersion crops; FFT-based crops are checked for their ledger only (values in C03/C05).",
  "technique": "explicit-state BFS over operation sequences on real objects + exhaustive single-step enumeration, exact rational reference ledger"},
 {"property_id": "C02",
  "text": "Bounded exhaustive exploration: 5 radio classes x nchan 1..6 (9 thorough) x 3 alignments x 6-8 bands in mixed units; "
          "every non-empty channel range spelling, nested ranges from every distinct reached state (de-duplicated on range, "
          "centre bits, alignment), third level, combined time+frequency slices, Stokes and trailing-axis selection; labels "
          "compared with the band formula in Fractions. Plus assignment histories (read labels / assign freq_align, center_freq, chan_bw / slice, depth 3) on one object and NumPy-integer bounds.",
  "note": "Trusts exact decimal unit scales of astropy units and Fractions; tolerance 8 ulp of max(|fc|, n*bw) per nesting level.",
  "technique": "explicit-state enumeration of slicing sequences (depth 3) on real objects with state de-duplication, exact rational band model"},
 {"property_id": "C03",
  "text": "Bounded exhaustive exploration of time_shift on the real code: N in {1..16} (to 32 thorough, primes included) x 4 dtypes x "
          "5-6 sample shapes x EVERY broadcastable shift-array shape (scalar, each prefix with axes full or length 1) x 17 uniform "
          "+ 5 mixed-sign fillings x number/Quantity form x crop on/off; input is a complete basis (e_j, i e_j), which determines "
          "the linear operator on every input, plus payload and a linearity check. Oracle: long-double DFT delay operator per "
          "element, exact 0.0 on out-of-range rows, crop=True == crop=False minus edges. Shift fillings include negative zeros; Quantity shifts are given in s, ms and us at 8 Hz, 1 kHz and 1 MHz (units not reciprocal to the rate's unit).",
  "note": "Trusts the O(N^2) long-double DFT built from the definition (self-tested against numpy.fft); budget 16*eps32; Nyquist-bin "
          "convention for complex even-N fractional shifts left open.",
  "technique": "bounded exhaustive enumeration of configurations on the real code, complete-basis operator identification against a long-double DFT reference model"},
 {"property_id": "C04",
  "text": "Bounded exhaustive exploration of freq_shift: N in {1..16} (32 thorough) x complex64/128 x 4-5 channel/pol shapes x 3-5 "
          "rates/units x every broadcastable shift shape x 15 uniform + 4 mixed fillings (whole, fractional, |b|>=N); complete "
          "basis + payload; each element compared with the long-double mix/DFT/zero/IDFT reference and the wrapped bins of the "
          "output spectrum must vanish; error contract (TypeError/ValueError). Fillings include negative zeros; the same (N, shift) is alternated between complex64 and complex128 in one process (no dependence on call history).",
  "note": "Trusts the long-double DFT reference; budget 64*eps(dtype)*N; the single boundary bin is open when the exact shift is "
          "within 1e-9 of, but not equal to, a whole bin.",
  "technique": "bounded exhaustive enumeration of configurations on the real code, complete-basis operator identification against a long-double DFT reference model"},
 {"property_id": "C05",
  "text": "Bounded exhaustive exploration of coherent dedispersion: 9 DMs (both signs, 1e-4..1e3) x 4 bands x nchan 1..3 x 3 "
          "alignments x 7 reference placements x N in {8,12,15,16,32} x trailing dims x complex64/128: chirp arrays against "
          "exp(-2 pi i frac(phi)) with phi in exact Fractions reduced mod 1; the dedispersed complete basis against long-double "
          "IDFT(DFT(x)H) on the exact valid window; supplied chirp == internal; start_time; plus wave-packet group-delay sign "
          "and DM/-DM restoration on band-limited compact inputs. References include an infinite reference frequency.",
  "note": "Trusts Fractions, the long-double DFT and the stated constant; budget 8 eps32 + float64 cancellation term; Nyquist-bin "
          "frequency convention and band-edge delays within 1e-9 of an integer are left open.",
  "technique": "bounded exhaustive enumeration of configurations on the real code, complete-basis operator identification against an exact-phase long-double reference model"},
 {"property_id": "C06",
  "text": "Bounded exhaustive exploration: time_delay/sample_delay on 10 DMs (3 units, both signs) x all ordered pairs and triples "
          "of 7 frequencies (Hz/MHz/GHz, scalar and array) x 4 rates against the exact rational f^-2 law, antisymmetry and chain "
          "additivity; incoherent_dedispersion on 5 classes x nchan 1..5 x 3 alignments x N in {6,12,24} x start/none x 7 "
          "reference placements x 11 sweeps (both signs, up to beyond the block): EVERY returned sample is decoded from an "
          "index-encoding payload and must be the input sample at T + round(delay_i)/sr, in-range, same element. Includes an infinite reference frequency for the law and for incoherent dedispersion.",
  "note": "Trusts Fractions, the stated constant K = 1/2.41e-4 and astropy unit scales; completeness is deliberately weak (any sound "
          "window accepted); delays within 1e-9 of a half-integer are left open.",
  "technique": "bounded exhaustive enumeration of configurations on the real code with per-sample source tracing against an exact rational delay model"},
 {"property_id": "C10",
  "text": "Bounded exhaustive exploration of concatenate: every multiset of <= 3 cut points x every missing-start pattern x every "
          "contiguous grouping and both folds (associativity) on 6 classes x 6 rates x L in {1,4,6}; EVERY sequence of 2-3 index "
          "ranges along time and 1-4 ranges along frequency (contiguous or not: gaps, overlaps, swaps, compensating gap+overlap) "
          "must be joined exactly or rejected; metadata perturbation menu (+-1,+-2,+-1/2 sample, rate/bw x(1+-1e-3), centre +-1 "
          "channel, class, other-axis mismatch). Perturbations are also made by ASSIGNMENT on pieces whose labels were already read, and one-sample errors are placed 1e5 and 2.5e5 samples after the first piece (no tolerance growing with elapsed time).",
  "note": "Trusts Fractions on the Time two-double; a sequence is required to be rejected only when two non-empty start-bearing "
          "pieces are inconsistent by >= 1 sample; any exception class counts as rejection.",
  "technique": "bounded exhaustive enumeration of split/join operation sequences on real objects (model = the original signal), differential associativity oracle"},
 {"property_id": "C12",
  "text": "Bounded exhaustive exploration of snippet: N in {1,2,5,8,13} x 3-4 dtypes x 3 sample shapes x start/none x 3 rates x EVERY "
          "quarter-sample t in [-1,N+1] x EVERY n in [-1,N+1] x 4 forms of t (int, float, Quantity, Time), on a complete basis; "
          "plus long signals (N=40000) with large fractional offsets against a float64 FFT reference. Whole counts must equal "
          "z[t:t+n] bit-exactly, other requests the long-double DFT interpolation at the exactly computed instant; out-of-range, "
          "n<0 and Time-without-start must raise ValueError. Requests a few nano-samples off a whole sample and a request after re-assigning sample_rate on the same object are included.",
  "note": "Trusts the long-double DFT reference and exact conversion of each form to samples; Quantity/Time requests exactly on the "
          "boundary and the start_time of empty results are left open.",
  "technique": "bounded exhaustive enumeration of inputs on the real code, complete-basis operator identification against a long-double DFT reference model"},
 {"property_id": "C13",
  "text": "Bounded exhaustive exploration: EVERY (X,Y) pair with real/imaginary parts from a 7-value dyadic grid (2401 pairs; 9 "
          "values thorough) x both starting bases x complex64/128 x 5-7 (nchan, alignment) configurations x trailing dims x "
          "NumPy and three Dask layouts (single chunk, multi-chunk, chunked along the polarisation axis): to_circular/to_linear "
          "values, unitarity, round trip, identity in own basis, Stokes from either basis, I^2=Q^2+U^2+V^2, I>=0, "
          "to_intensity, component access by name and attribute, types and metadata. Histories on one object: read a Stokes component, modify in place, read again; convert after in-place change and after assigning pol_type; all alignment / polarisation strings are built at run time (equality, not identity).",
  "note": "Trusts long-double evaluation of the documented formulas on exactly representable inputs; budget 8 eps(dtype) max|.| "
          "(16 eps max^2 for quadratic quantities).",
  "technique": "exhaustive enumeration of a finite value grid and configuration space on the real code against an exact formula model"},
 {"property_id": "C18",
  "text": "Exhaustive enumeration on the real functions: every N below 2^20 (quick) / 2^23 (thorough), N in {s-3..s+3} and the midpoint to the next smooth number around "
          "7-smooth s below 2^62, and fast_len on every signal length 0..200 of every class (NumPy data and Dask data in one, several and two chunks); N also as a NumPy integer scalar of every width that holds it (asked before the Python int, since the memo shares the key); each result compared with an "
          "independently generated sorted list of all 7-smooth numbers. Complete within the stated bounds, silent outside them.",
  "note": "Trusts the nested-multiplication generator of the smooth list (self-checked against trial division in setup) and Python big-int arithmetic.",
  "technique": "bounded exhaustive enumeration of inputs on the real code against a reference model (explicit-state, one state per input)"},
 ]
CHECKS += [
 {"property_id": "C19",
  "text": "Bounded exhaustive exploration of real_to_complex: N in 0..16 (33 thorough) x EVERY vector of {-1,0,1}^N for N<=7 (full "
          "basis, all pairwise sums/differences, alternating and constant vectors above) x 11 real dtypes x rank 1..3 x every axis "
          "incl. negative; output compared with the definition (analytic weights, quarter-rate mix, decimation) through "
          "long-double DFT matrices; shape, dtype rule, real-part identity, tone mapping w -> w-N/4, linearity, complex refused. C-, Fortran- and strided inputs; other axes of length zero; two same-shape calls on two threads under the cooperative scheduler (every interleaving with <= 1 / 2 preemptions).",
  "note": "Trusts the long-double DFT matrices; accuracy demanded at single precision for float16/float32 inputs (scipy.fft "
          "computes half precision in single), double otherwise.",
  "technique": "exhaustive enumeration of all small input vectors and layouts on the real code against a long-double reference model"},
]
CHECKS += [
 {"property_id": "C20",
  "text": "Bounded exhaustive exploration: 14 transform names x 9-13 shapes (rank 1..3) x 6 dtypes (incl. int8/bool) x every axis / "
          "ordered axes pair / single-axis tuple x length arguments (None, shorter, longer) x 3 normalisations x NumPy and Dask "
          "(chunked off the transformed axes; laziness and advertised shape/dtype checked): values, shape and dtype against "
          "scipy.fft.<same name>, cross-checked with numpy.fft and a long-double DFT-definition reference; unknown names -> "
          "AttributeError. STFT/ISTFT: nchan 1..4 x 3 alignments x nperseg in {1,2,3,4,5,N} x N in {12,15,16} x trailing dims: "
          "labels, tones at known absolute frequency under the matching label, sample rate, start time, exact inversion, and a second inversion of the same kept STFT object.",
  "note": "scipy.fft is the statement's reference; calls on which numpy.fft disagrees with scipy.fft (irfft* over a length-1 axis) "
          "are unconstrained; budget 64 eps(result dtype) * size.",
  "technique": "bounded exhaustive enumeration of call configurations on the real code against three reference models (library, independent library, long-double definition)"},
]
CHECKS += [
 {"property_id": "C07",
  "text": "Bounded exhaustive exploration of Phase arithmetic: 16 counts (0..2^52-1, half-integer and un-normalised inputs) x 17 "
          "fractions (exact +-1/2, 1/2-2^-54, denormal, -1e-20) x EVERY operand kind (Python int/float/bool/complex, NumPy scalars, "
          "0-d/1-d/2-d arrays, lists, dimensionless/cycle/degree Quantities, Angle, Phase, Phase arrays) x both operand orders x "
          "real/imaginary, for construction (1 and 2 operands), + - neg abs, * / by 16 factors + imaginary factors, // % divmod "
          "np.divmod by 6 divisors x 4 kinds, sin/cos/tan/exp, out= forms, and the whole grid as one array. Oracle: Fractions "
          "of the operands' stored doubles, 2^-52 cycles, normalisation, type (never a silent single double), i*i=-1. In-place and out= forms that switch a target between real and imaginary are included.",
  "note": "Trusts Fractions; results beyond 2^52 cycles and plain-number divisors of // % divmod (astropy unit error) are outside / open.",
  "technique": "bounded exhaustive enumeration of a value grid x operand-kind alphabet on the real code against an exact rational reference model"},
 {"property_id": "C15",
  "text": "Bounded exhaustive exploration: all ordered pairs of an 80-value grid (ties, near-ties below the double resolution of the "
          "count, mixed signs) x 6 comparisons x operator/ufunc/reversed/array/Quantity forms; ALL arrays of length <= 3 (4 "
          "thorough) over a 10-value subset plus all 6^4 length-4 arrays over the six hardest values, with 2x2 reshapes and every "
          "axis, for min max argmin argmax sort argsort ptp; EVERY string of a 2 900-string decimal grammar for from_string (and "
          "arrays of strings); to_string(), precision 0..12 and format '.kf' on 8 counts x 23 fractions x both signs; round trip. Comparison ufuncs are also called with the non-Phase operand first; arrays are sorted, updated in place (+=, -=, out=) and sorted again.",
  "note": "Trusts Fractions and a regular-expression notion of 'plain decimal'; for exact ties any consistent index/permutation is "
          "accepted; imaginary flag of exact zero and '.0f' formatting are left open.",
  "technique": "bounded exhaustive enumeration (all pairs / all short arrays / all grammar strings) on the real code against exact rational ordering and decimal models"},
]
CHECKS += [
 {"property_id": "C08",
  "text": "Bounded exhaustive exploration: generated tempo-format polyco texts (every non-empty subset of a 4-slot TMID grid under "
          "4 spacing schemes: touching, overlapping, 0.5 ms gap, 10 min gap; 6-18 configurations of coefficient count (incl. not "
          "multiples of 3), e/E/D/d exponents, span, F0, RPHASE up to 1e12; file order shuffled) and the shipped timing.dat, every "
          "row subset; per entry a 13-point time grid incl. ends +-1 us; scalar, sorted, reversed, interleaved and 2-D array "
          "calls; f0 with n=0,1,2; phasepol then predictions again (history); time_at; out-of-span and mixed-entry rejections; "
          "interval merging. Oracle: the tempo formula in Fractions on the decimal strings. Outside points include 10 ns and 100 ns beyond span edges; reference phases include >= 1e11 with fraction .999999.",
  "note": "Trusts Fractions, an independent text parser/generator and the exact (jd1, jd2) of Time; budget 1e-8 cycle + "
          "F0*86400*2^-51; times inside a <1 ms gap and exactly on span ends are left open.",
  "technique": "bounded exhaustive enumeration of generated inputs and call histories on the real code against an exact rational reference model"},
 {"property_id": "C16",
  "text": "Bounded exhaustive exploration of the class contract: 6 classes x 28 shapes (rank 0..4, zero-size and wrong fixed axes, "
          "zero-length) x 19 dtypes (incl. byte-swapped) x NumPy/Dask constructors with validity predicted from the contract (np.can_cast safe rule); "
          "metadata menus one at a time and all pairs; every setter with every menu value; every output of all 56 catalogue "
          "operations on both backends and after a stepped slice; like() with and without overrides and across classes; pickle, "
          "cloudpickle, deepcopy, compute, persist, to_dask_array, rechunk. One-element arrays are in every metadata menu; after each valid assignment like()/pickle/deepcopy/slice must carry the current attributes and derived values.",
  "note": "Trusts the contract checker pbmc/invariants.py (written from the property statement) and NumPy's safe-cast table.",
  "technique": "bounded exhaustive enumeration of constructor/assignment inputs plus an invariant monitor on every state reached by the operation catalogue"},
 {"property_id": "C17",
  "text": "Bounded exhaustive exploration: every NumPy ufunc without gufunc signature (85) x 8 signal variants (all classes; float, "
          "int, bool, complex) x NumPy/Dask x 12 second-operand kinds x both orders; 18 operators x 4 operand kinds x both orders; "
          "out= forms incl. two-output tuples, in-place operator chains; reduce/accumulate/reduceat/outer/at/matmul refused; "
          "np.asarray/np.array with dtype and copy, and conversion / in-place write / conversion histories. Oracle: the same "
          "ufunc on the underlying arrays. An out-of-place result must not alias an operand; in-place operators with 7 operand kinds (incl. percent and km/m Quantities) are mirrored on raw arrays; dtype=/casting=/where= keywords; out= and in-place targets with zero time samples.",
  "note": "Trusts NumPy/Dask ufunc results on raw arrays as the reference; (superclass signal, subclass signal) dispatch order left open.",
  "technique": "exhaustive enumeration of the ufunc x operand-arrangement alphabet on the real code with a differential oracle on the raw data"},
]
CHECKS += [
 {"property_id": "C11",
  "text": "Bounded exhaustive exploration of the readers: 11 reader configurations (4 shipped files incl. multi-file GUPPI and LSB "
          "Stokes, 5 files written by the check with known (time, pol, chan) payload: complex/real, USB/LSB, Stokes BW>0/<0; a "
          "lower-sideband GUPPI set; a per-channel sideband mask): every k in [0, len] through absolute/relative times and "
          "rounding; boundary (offset, n) sets incl. frame/file boundaries and all out-of-range combinations, eager and Dask; "
          "EVERY sequence of <= 3 reads (4 thorough) over an 8-read alphabet, eager and Dask mixed, on one long-lived reader; "
          "2 threads (3 thorough) x 2 reads each on one reader under a cooperative scheduler that explores EVERY interleaving at "
          "Python-line granularity with <= 1 (2 thorough) preemptions, with and without a scheduler-aware lock=; two readers in "
          "one Dask graph; free-running real-thread smoke pass.",
  "note": "Trusts baseband's own reader/writer for the reference data and the long-double Hilbert reference (n <= 48); interleavings "
          "are explored between lines of pulsarbat/readers/*.py and utils.py only, code in baseband/numpy runs atomically; C-level "
          "parallelism is not modelled; the free-running pass is not coverage.",
  "technique": "stateless model checking of the implementation: preemption-bounded exhaustive schedule exploration under a controlled scheduler + exhaustive read-history enumeration against a reference"},
 {"property_id": "C14",
  "text": "Explicit-state breadth-first search over operation HISTORIES on real objects: 7 initial signals with writable buffers of "
          "different layouts (contiguous, strided views, Fortran order, complex64, NaN/inf content, Dask-wrapped buffer, 1-D) x all "
          "70 catalogue operations (incl. raising ones and ones with array/Quantity/Time/list arguments) to depth 2 (3 thorough), "
          "successors de-duplicated on (type, shape, dtype, data bytes, metadata), outputs fed back as inputs so aliasing views are "
          "reached; after every transition the byte snapshot of every earlier pool member, base buffer and argument must be "
          "unchanged. Sanctioned out=/in-place writes are checked to change only their target.",
  "note": "Trusts byte/attribute snapshots (tobytes + dtype/shape/strides/flags + repr of attributes); lazily built Dask results are "
          "computed so that tasks touching the inputs run.",
  "technique": "explicit-state BFS over operation histories on the real implementation with an immutability invariant checked in every reached state"},
]
CHECKS += [
 {"property_id": "C09",
  "text": "Bounded exhaustive exploration of the Dask backend: every catalogue operation (64, incl. pipelines, two-output ufuncs, "
          "signal_transform with dtype change / other signal_type) on 5 signal configurations x EVERY chunk composition of each sample "
          "axis x time axis whole or split x synchronous and threaded schedulers (multiprocess on the finest layout), with a "
          "sentinel delayed input proving nothing is computed while the result is built; for every operation on the finest layout "
          "EVERY task order within 1 (2 thorough) deviations of Dask's own order under a controlled scheduler; 6 pairs of "
          "pulsarbat task bodies on two threads under the cooperative scheduler with <= 1 (2) preemptions; reader Dask reads with a "
          "counting wrapper around baseband.open, chunks=, downstream laziness and two readers in one graph. Every history of <= 3 (4) container / in-place operations (compute, persist, asarray, *=, +=, out=, rechunk) on ONE Dask-backed signal is mirrored on a NumPy twin.",
  "note": "Trusts the NumPy-path result as reference (itself checked by C01-C20) and Dask's own graph/state bookkeeping used by the "
          "controlled scheduler; real thread/process pools are run once per case, their internal schedules are covered only through "
          "the two explorers; a layout may be rejected (must raise) only when an FFT axis is chunked.",
  "technique": "stateless model checking of the implementation: deviation-bounded exhaustive exploration of Dask task orders and preemption-bounded thread interleavings under controlled schedulers, plus exhaustive chunk-layout enumeration with a differential oracle"},
]

# alphabets added after the fourth wave of independently produced breaking changes (see DESIGN.md A.5)
_WAVE4 = {
 "C01": "contains() probes are also given on the TAI and TT scales.",
 "C02": "Assignment histories include assignments that must be refused (labels must stay).",
 "C03": "Every truthy spelling of crop; large Quantity shifts a few thousandths off a whole sample; use / overwrite buffer / use again.",
 "C04": "Use, assign sample_rate, shift again vs a freshly built signal; use / overwrite buffer / use again.",
 "C05": "Chirps handed to the caller and modified; use / assign sample_rate / dedisperse vs a fresh signal; overwritten buffers.",
 "C06": "DM objects updated in place between uses; use / assign sample_rate / dedisperse vs a fresh signal; overwritten buffers.",
 "C07": "Complex array, read-only and strided factors, the same array used twice, operands snapshotted around every product.",
 "C08": "phasepol reference times 100-400 ns apart; time_at with guesses in the same, neighbouring and second-neighbour entries.",
 "C09": "The one-chunk layouts are re-run under a tiny ambient dask array.chunk-size.",
 "C10": "Axis spelled 0/'time'/-ndim/np.int64(0) (and the channel analogues); pieces stamped on the TAI / TT scale.",
 "C11": "offset_at with times on other scales; every time-chunk size of a Dask read on two spans.",
 "C12": "t and n as NumPy integers of every width on a 300-sample signal; Time requests on other scales; buffer overwritten between requests.",
 "C13": "Refused pol_type assignments; use / overwrite buffer / use again for all four conversions.",
 "C14": "Pieces carrying different meta dicts (joined and refused); shifts that move everything out of band / out of the block.",
 "C15": "Keyword spellings of to_string's defaults (unit strings, equal-but-distinct unit objects, alwayssign); reductions on transposed views.",
 "C16": "NaN, -inf, float32-, integer-valued and string rates in the menus.",
 "C17": "dtype= calls whose values depend on the computation type; signal operands with fewer / more dimensions.",
 "C19": "Complex inputs of every shape including empty ones, every axis spelling.",
 "C20": "stft/istft with the optional arguments omitted or spelled in every way on N = 256, 600, 1024; use / overwrite buffer / use again.",
}
for _c in CHECKS:
    if _c["property_id"] in _WAVE4:
        _c["text"] = _c["text"] + " " + _WAVE4[_c["property_id"]]

# alphabets added after the fifth wave
_WAVE5 = {
 "C01": "Signals running through a leap second; a channel subscript next to a stepped time slice; single-precision sample rates; TAI-scale and unix-format (with location) start times.",
 "C02": "like() with data of another channel count; single-precision centre / width Quantities.",
 "C03": "1 GHz rate with shifts in s / ks / ns; shifts beyond 2^63 samples; Fortran-ordered and transposed-view shift arrays.",
 "C04": "Shifts beyond 2^63 bins; Fortran-ordered and transposed-view shift arrays.",
 "C05": "DMs chosen per band so that an edge delay is a few 1e-7 above a whole sample.",
 "C06": "Trivial user-defined subclasses of each radio class.",
 "C07": "Two-number construction in either order with adversarial magnitudes; targets that are views of the dividend; sibling Angle subclasses (FractionalPhase, Longitude, Latitude) as operands.",
 "C08": "The same rows selected in another order (p[[3,1,2,0]], p[::-1]).",
 "C09": "All-out-of-band shifts in the operation catalogue; reader reads whose chunks split the time axis.",
 "C10": "Channels that are narrow compared with the sky frequency (centre / width 1.4e6 and 3e9).",
 "C11": "A minimal reader on the public base class running through a leap second; the multi-file sequence under names whose sorted order is not their time order.",
 "C13": "The same Dask array labelled in both bases with all conversions in one graph.",
 "C14": "A masked-array input buffer.",
 "C15": "EVERY decimal with four fractional digits under eight integer parts; strings parsed / rendered under a lowered decimal context and NumPy print options; comparison ufuncs with out=; the NumPy function forms np.min ... np.ptp, np.sort, np.argsort; keepdims (values).",
 "C16": "Mapping metas that are not dicts.",
 "C17": "Masked-array data (values and mask).",
 "C18": "N passed by keyword 300 times in a row; fast_len on masked data.",
 "C19": "Long axes (4096, 4099, 131072) against a float64 FFT evaluation of the definition; positional / keyword / negative spellings of the axis.",
 "C20": "s without axes and positional s / axes for the n-D names; float16 input; scipy-only keywords; Quantity input; stft with two trailing axes.",
}
for _c in CHECKS:
    if _c["property_id"] in _WAVE5:
        _c["text"] = _c["text"] + " " + _WAVE5[_c["property_id"]]
    if _c["property_id"] == "C07":
        _c["note"] = _c["note"] + " One known finding (astropy Longitude / Latitude as LEFT operand of + and -: the result is computed by astropy without consulting Phase) is listed in known_findings.jsonl and printed as KNOWN-FINDING."

# alphabets added after the sixth wave (bug hunt on the unmodified code + seeds K/L)
_WAVE6 = {
 "C02": "Index lists / integers / None on several trailing axes, also separated by slices (labels must stay or the index be refused).",
 "C03": "float32 shifts on long signals; one-sided rule for whole-sample Quantity shifts with a dense family of 640 multiples of a round step at seven round rates.",
 "C04": "Large shifts a few thousandths of a bin off a whole bin.",
 "C05": "Lengths with a prime factor above 11.",
 "C07": "Phase divisors that need both doubles; float16 / int8 / uint8 factors; factors and divisors one ulp from unity.",
 "C08": "Negative reference phases, NCOEFF = 1, holes of 60 s and 2 ms, reference times near power-of-two offsets for phasepol, time_at a fraction of a millisecond inside the ends of every interval and exactly on them.",
 "C09": "A documented class attribute (dispersion constant) changed only around the call that builds the lazy result.",
 "C10": "Slightly different sample rates on long pieces; spans of 1e5 - 1e6 s at generic rates in every grouping.",
 "C11": "Synthetic readers at rates that are not a whole number of Hz; chunks= on a reader written to the documented hook signature; (polarisation, channel) sideband masks.",
 "C12": "EVERY whole-sample request of a 32-sample signal written as a duration and as a Time at eight generic rates.",
 "C13": "Signals of 140 000 x 4 samples, NumPy and Dask.",
 "C14": "ufuncs with where= and no out=; Phase-module operations on caller-owned arrays (both doubles of a Phase snapshotted).",
 "C15": "Near-ties whose single-double value rounds to count + 1/2; fixed-point format with zero decimals and of imaginary phases; EVERY fraction i/4999 - 1/2 in the default rendering.",
 "C16": "Complex and long-double-denormal rates, unhashable labels, non-scalar Times already in the constructor's format; the same refusals in an interpreter started with -O.",
 "C19": "Byte-swapped dtypes; inputs scaled by 1e-9 .. 1e-30.",
 "C20": "Explicit axes=None, positional (s, None), -1 entries in s, bare integers for s / axes.",
}
for _c in CHECKS:
    if _c["property_id"] in _WAVE6:
        _c["text"] = _c["text"] + " " + _WAVE6[_c["property_id"]]
_WAVE7 = {
 "C01": "Slices across a leap second; coherent crop against the band the channels actually cover (bottom / top alignment).",
 "C03": "Whole-sample shifts through inexact float products on BOTH sides of the whole sample (within 1e-8); shift arrays whose shape does not match the sample shape must be refused.",
 "C04": "Whole-bin shifts a rounding error above or below the whole bin zero exactly that many bins; mismatching shift shapes refused.",
 "C05": "Crop computed from the covered band for every alignment.",
 "C06": "An empty result (not an exception) when no instant has all channels in range.",
 "C07": "Dividends a hair below (1e-9 .. 1e-17) and above multiples of the divisor, divisors of either sign as Phase and as Quantity, quotients from -5 to 2^20.",
 "C08": "Times 20 - 300 ns past every junction of touching / overlapping spans; p(time_at(ph)) compared with ph in cycles, also on a dense family late in the 24 h interval of the shipped file and in 8-day contiguous files; subsets with no rows.",
 "C09": "In-place operators with wider operands (the container's dtype must be kept, or the call refused, as on NumPy data); transforms whose own keywords are spelt like map_blocks parameters.",
 "C10": "Axes outside -ndim .. ndim-1; channel widths differing by 9e-6 on very wide pieces; rate mismatches on pieces without start time; joins along a trailing sample axis.",
 "C11": "Lower-sideband GUPPI files against the format's channel order (descending, conjugated); readers without a start time through relative times.",
 "C12": "Whole-sample durations and Times 1e8 samples into a lazily held 2^27-sample signal.",
 "C14": "The axis given as a 0-d array; Phase conversions with copy=False; text forms of signals with arrays in meta.",
 "C15": "Format specifications with the z flag, fills (also '.'), alignments and grouping; np.array_equal / array_equiv and the outer form of comparisons; byte strings.",
 "C16": "Logarithmic units and lengths under enabled spectral equivalencies offered as frequencies.",
 "C17": "The first signal operand labels the result also when a later operand is of a derived class; Signal masks for where=; every generalized ufunc refused; length-1 labelled axes stretched by broadcasting.",
 "C18": "Timestamps kept bit for bit on 600 generic epochs of three time scales.",
 "C19": "Byte-swapped half precision; float16 input held to double precision.",
 "C20": "Integer s / axes, positional norm, inconsistent s / axes and scipy's execution hints on Dask arrays; nperseg with a prime factor above 11.",
}
for _c in CHECKS:
    if _c["property_id"] in _WAVE7:
        _c["text"] = _c["text"] + " " + _WAVE7[_c["property_id"]]
_WAVE8 = {
 "C03": "Double-precision data held to 4096 eps64.",
 "C05": "Reference frequencies held in single precision; lazy chirps of nearly equal arguments (signals a few Hz apart in one graph, channels under a coarse print precision).",
 "C06": "Bands straddling 0 Hz.",
 "C07": "Item assignment and everything built on it (augmented assignment on elements / slices / masks, numpy.roll, fill, put); ufunc.at; the outer form of the arithmetic ufuncs; numbers and divisors in half / single precision containers.",
 "C08": "One-entry files on a day's grid of TMIDs; text layouts (blank lines, CRLF, no final newline); phases inside and next to an upward jump between two entries; sessions a year and eight years apart in one file; rows removed in place after the intervals were read.",
 "C09": "Masked in-place ufuncs, NumPy's ufunc keywords (casting, order, subok, dtype) on Dask data; two lazy results of one transform whose Quantity keywords differ in unit or late digits, in one graph; dtype= loops with other input types, weak Python scalars, casting='no', out= larger than the operands.",
 "C10": "Start time of a join bit for bit on generic UTC epochs; tuples and deques of pieces.",
 "C11": "Real-sampled reads against a conversion whose mixing ramp counts from the start of the file.",
 "C15": "The pair of normalised states straddling a half cycle; '#', '_' and 'F' in format specifications.",
 "C12": "Fractional requests on 8- and 16-bit integer data held to double precision.",
 "C16": "Augmented assignments and in-place updates of values read from a signal; the baseband contract after assignments.",
 "C20": "Lazy transforms of a rank-8 array must not allocate a large probe while the graph is built; no axis transformed; an argument given twice; axis=None; integer-like entries of axes.",
}
for _c in CHECKS:
    if _c["property_id"] in _WAVE8:
        _c["text"] = _c["text"] + " " + _WAVE8[_c["property_id"]]
_ALL = ["C%02d" % i for i in range(1, 21)]
NOT_APPLICABLE = [{"property_id": p, "reason": "check not yet built in this session (planned in DESIGN.md; no claim made yet)"}
                  for p in _ALL if p not in {c["property_id"] for c in CHECKS}]
