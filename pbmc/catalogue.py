"""The one list of public operations with small argument alphabets (shared by C09, C14, C16).

Each entry: (name, applies(z) -> bool, fn(z) -> result).  Results may be a signal, a tuple of signals, an
array, or anything else; callers pick what they need.  Arguments (shift arrays, Quantities, chirps) are created
by `make_args(z)` so that C14 can snapshot them before the call.
"""
import numpy as np
import astropy.units as u
import dask.array as da

from . import bind_repo

pb = bind_repo()


def is_radio(z):
    return isinstance(z, pb.RadioSignal)


def is_bb(z):
    return isinstance(z, pb.BasebandSignal)


def is_dp(z):
    return isinstance(z, pb.DualPolarizationSignal)


def is_fs(z):
    return isinstance(z, pb.FullStokesSignal)


def any_sig(z):
    return True


def floaty(z):
    return z.dtype.kind in "fc"


def has_start(z):
    return z.start_time is not None


def _dm_for(z, sweep=2.3):
    """A DM giving a band sweep of `sweep` samples at z's metadata."""
    K = 1 / 2.41e-4
    fmin = z.min_freq.to_value(u.MHz)
    fmax = z.max_freq.to_value(u.MHz)
    sr = z.sample_rate.to_value(u.Hz)
    unit = K * (fmin ** -2 - fmax ** -2) * sr
    return pb.DM(sweep / unit if unit else 0.0)


@pb.signal_transform
def _double(x):
    return x * 2


@pb.signal_transform
def _absval(x):
    return abs(x)


@pb.signal_transform
def _cast_scaled(x, dtype=None, name=1.0):
    """A transform whose own keywords are spelt like parameters of dask.array.map_blocks."""
    return (x * name).astype(dtype)


@pb.signal_transform
def _qscale(x, delay=1 * u.s, gain=1.0):
    """A transform with Quantity keywords (their unit matters)."""
    return x * (float(np.sum(delay.to_value(u.s))) * 1e3 + gain)


def _imul(z, w):
    """y = copy of z; y *= w (an in-place operator keeps the container's dtype)."""
    y = type(z).like(z, z.data.copy())
    y *= w
    return y


def _iadd(z):
    y = type(z).like(z, z.data.copy())
    y += np.full(z.shape[-1:], 0.1, dtype=np.float64)
    return y


def _masked_iadd(z):
    """np.add(y, float64 array, out=y, where=mask) on a single-precision copy: masked-out samples and the dtype are kept."""
    y = _single(type(z).like(z, z.data.copy()))
    mask = (np.arange(int(np.prod(z.shape))).reshape(z.shape) % 3 != 0)
    r = np.add(y, np.full(z.shape[-1:], 0.1, dtype=np.float64), out=y, where=mask)
    assert r is y
    return y


def _out_broadcast(z):
    """np.add(one time sample of z, 1, out=<signal of the full length>): the operands broadcast up to the output."""
    t = type(z).like(z, z.data.copy())
    r = np.add(z[:1], 1, out=t)
    assert r is t
    return t


def _weights(z):
    w = np.arange(1, z.shape[-1] + 1) / 4 + 0.5
    return (w + 0.25j).astype(np.complex128) if z.dtype.kind == "c" else w.astype(np.float64)


def _single(z):
    """The same signal in single precision (same container)."""
    return type(z).like(z, z.data.astype(np.complex64 if z.dtype.kind == "c" else np.float32))


def per_elem(z, vals):
    """One value per element of the sample shape (e.g. per channel AND polarisation)."""
    n = int(np.prod(z.sample_shape))
    return np.array([vals[i % len(vals)] for i in range(n)], dtype=float).reshape(z.sample_shape)


def per_chan(z, vals):
    n = z.sample_shape[0] if z.sample_shape else 1
    return np.array([vals[i % len(vals)] for i in range(n)], dtype=float)


# name, applies, fn
OPS = [
    ("z[2:]", any_sig, lambda z: z[2:]),
    ("z[::2]", any_sig, lambda z: z[::2]),
    ("z[1:-1:3]", any_sig, lambda z: z[1:-1:3]),
    ("z[-5:100]", any_sig, lambda z: z[-5:100]),
    ("z[3:3]", any_sig, lambda z: z[3:3]),
    ("z[:, 1:]", lambda z: is_radio(z) and z.nchan >= 2, lambda z: z[:, 1:]),
    ("z[1:7, :1]", is_radio, lambda z: z[1:7, :1]),
    ("z['Q']", is_fs, lambda z: z["Q"]),
    ("z.stokesV", is_fs, lambda z: z.stokesV),
    ("fast_len", any_sig, lambda z: pb.fast_len(z)),
    ("time_shift 1.5", floaty, lambda z: pb.time_shift(z, 1.5)),
    ("time_shift -2 crop", floaty, lambda z: pb.time_shift(z, -2, crop=True)),
    ("time_shift per-chan", lambda z: floaty(z) and z.ndim >= 2, lambda z: pb.time_shift(z, per_chan(z, [0.5, -1.25, 2.0]))),
    ("time_shift per-chan crop", lambda z: floaty(z) and z.ndim >= 2,
     lambda z: pb.time_shift(z, per_chan(z, [0.5, -1.25, 2.0]), crop=True)),
    ("time_shift Quantity", floaty, lambda z: pb.time_shift(z, 1.5 / z.sample_rate)),
    ("time_shift 0", floaty, lambda z: pb.time_shift(z, 0)),
    ("freq_shift scalar", is_bb, lambda z: pb.freq_shift(z, z.sample_rate / 8)),
    ("freq_shift per-chan", is_bb, lambda z: pb.freq_shift(z, per_chan(z, [1.0, -2.5, 0.0]) * z.sample_rate / len(z))),
    ("freq_shift zero", is_bb, lambda z: pb.freq_shift(z, 0 * u.Hz)),
    ("freq_shift zero array", is_bb, lambda z: pb.freq_shift(z, per_chan(z, [0.0]) * u.kHz)),
    ("freq_shift everything out of band", is_bb, lambda z: pb.freq_shift(z, -2 * z.sample_rate)),
    ("freq_shift per-chan all out of band", is_bb, lambda z: pb.freq_shift(z, per_chan(z, [1.0, -3.0]) * z.sample_rate)),
    ("time_shift everything shifted out", floaty, lambda z: pb.time_shift(z, 2.0 * len(z) + 0.5)),
    ("time_shift with -0.0 entries", lambda z: floaty(z) and z.ndim >= 2, lambda z: pb.time_shift(z, per_chan(z, [-0.0, 1.5, -0.0]))),
    ("snippet whole", any_sig, lambda z: pb.snippet(z, 2, 4)),
    ("snippet a few nano-samples past a whole sample", floaty, lambda z: pb.snippet(z, 2 + 5e-9, 4)),
    ("snippet fractional", floaty, lambda z: pb.snippet(z, 1.5, 4)),
    ("snippet Quantity", floaty, lambda z: pb.snippet(z, 2.25 / z.sample_rate, 3)),
    ("snippet Time", lambda z: floaty(z) and has_start(z), lambda z: pb.snippet(z, z.start_time + 2.5 / z.sample_rate, 3)),
    ("concatenate time", any_sig, lambda z: pb.concatenate([z[:5], z[5:]])),
    ("concatenate time 3", any_sig, lambda z: pb.concatenate([z[:2], z[2:2], z[2:]], axis="time")),
    ("concatenate freq", lambda z: is_radio(z) and z.nchan >= 2, lambda z: pb.concatenate([z[:, :1], z[:, 1:]], axis="freq")),
    ("coherent internal", is_bb, lambda z: pb.coherent_dedispersion(z, _dm_for(z))),
    ("coherent ref top", is_bb, lambda z: pb.coherent_dedispersion(z, _dm_for(z, -1.7), ref_freq=z.max_freq)),
    ("coherent supplied chirp", is_bb,
     lambda z: pb.coherent_dedispersion(z, _dm_for(z), chirp=_dm_for(z).chirp_from_signal(z))),
    ("coherent, double-precision chirp supplied for single-precision data", is_bb,
     lambda z: pb.coherent_dedispersion(_single(z), _dm_for(z), chirp=np.asarray(_dm_for(z).chirp_from_signal(z)).astype(np.complex128))),
    ("freq_shift per (channel, polarisation)", lambda z: is_bb(z) and len(z.sample_shape) >= 2,
     lambda z: pb.freq_shift(z, per_elem(z, [1.0, -2.5, 0.0, 3.25, -1.0]) * z.sample_rate / len(z))),
    ("time_shift per (channel, polarisation)", lambda z: floaty(z) and len(z.sample_shape) >= 2,
     lambda z: pb.time_shift(z, per_elem(z, [0.5, -1.25, 2.0, 0.0, -3.0]))),
    ("chirp_from_signal", is_bb, lambda z: _dm_for(z).chirp_from_signal(z)),
    ("incoherent", is_radio, lambda z: pb.incoherent_dedispersion(z, _dm_for(z, 3.3))),
    ("incoherent ref bottom", is_radio, lambda z: pb.incoherent_dedispersion(z, _dm_for(z, -2.6), ref_freq=z.min_freq)),
    ("to_linear", is_dp, lambda z: z.to_linear()),
    ("to_circular", is_dp, lambda z: z.to_circular()),
    ("to_stokes", is_dp, lambda z: z.to_stokes()),
    ("to_intensity", is_bb, lambda z: z.to_intensity()),
    ("z + 1", any_sig, lambda z: z + 1),
    ("z * z", any_sig, lambda z: z * z),
    ("np.abs", any_sig, lambda z: np.abs(z)),
    ("np.negative", lambda z: z.dtype.kind != "b", lambda z: np.negative(z)),
    ("2 - z", any_sig, lambda z: 2 - z),
    ("signal_transform x2", any_sig, lambda z: _double(z)),
    ("signal_transform with dtype= and name= keywords of its own", floaty,
     lambda z: _cast_scaled(z, dtype=np.complex64 if z.dtype.kind == "c" else np.float32, name=1.5)),
    ("signal_transform with Quantity keywords: two units, and two nearly equal values, in one graph", floaty,
     lambda z: (_qscale(z, delay=[1, 2] * u.ms) - _qscale(z, delay=[1, 2] * u.us))
     + (_qscale(z, delay=0.5 * u.s) - _qscale(z, delay=0.500000001 * u.s)) * 1e6),
    ("ufunc with dtype= (the loop, not a cast of the result)", lambda z: z.dtype.kind == "f",
     lambda z: np.multiply(type(z).like(z, z.data.astype(np.float32)), 1 / 3, dtype=np.float64)),
    ("np.abs of complex data with dtype=float64 (a loop with another input type)", lambda z: z.dtype.kind == "c",
     lambda z: np.abs(pb.Signal(z.data, sample_rate=z.sample_rate), dtype=np.float64)),
    ("comparison with dtype=bool", lambda z: z.dtype.kind == "f", lambda z: np.less(pb.Signal(z.data, sample_rate=z.sample_rate), 0.1, dtype=bool)),
    ("np.add with dtype=float32 and a list operand", lambda z: z.dtype.kind == "f" and z.ndim == 1,
     lambda z: np.add(z, [0.1] * len(z), dtype=np.float32)),
    ("ufunc with dtype= and a Python scalar operand under casting='safe'", lambda z: z.dtype.kind == "f",
     lambda z: np.add(_single(z), 1.5, dtype=np.float32, casting="safe")),
    ("ufunc with dtype=int64, casting='unsafe' and a Python float operand", lambda z: z.dtype.kind == "f",
     lambda z: np.add(pb.Signal((z.data * 8).astype(np.int64), sample_rate=z.sample_rate), 2.5, dtype="i8", casting="unsafe")),
    ("ufunc with dtype=float32 on integer data and a Python int first operand", lambda z: z.dtype.kind == "f",
     lambda z: np.ldexp(3, pb.Signal((abs(z.data) * 8).astype(np.uint8), sample_rate=z.sample_rate), dtype="f4")),
    ("ERR ufunc with casting='no' on operands of two widths", lambda z: z.dtype.kind == "f",
     lambda z: np.add(_single(z), np.ones(z.shape[-1:], dtype=np.float64), casting="no")),
    ("out= larger than the broadcast operands", floaty, lambda z: _out_broadcast(z)),
    ("in-place multiply by double-precision weights", floaty, lambda z: _imul(z, _weights(z))),
    ("in-place add of a float64 array", floaty, lambda z: _iadd(z)),
    ("masked in-place add (out= with where=) of a float64 array into single-precision data", floaty, lambda z: _masked_iadd(z)),
    ("ufunc with casting=, order= and subok= keywords", floaty, lambda z: np.add(z, 1, casting="same_kind", order="K", subok=True)),
    ("ufunc with out= and casting='unsafe'", lambda z: z.dtype.kind == "f",
     lambda z: np.multiply(z, 1.5 + 0j, out=type(z).like(z, z.data.copy()), casting="unsafe")),
    ("ERR in-place multiply of real data by 1j", lambda z: z.dtype.kind == "f", lambda z: _imul(z, 1j)),
    ("signal_transform abs", lambda z: not is_bb(z), lambda z: _absval(z)),
    ("stft 2", is_bb, lambda z: pb.contrib.stft(z, nperseg=2)),
    ("stft 3", is_bb, lambda z: pb.contrib.stft(z, nperseg=3)),
    ("istft 2", lambda z: is_bb(z) and z.nchan % 2 == 0, lambda z: pb.contrib.istft(z, nperseg=2)),
    ("compute", any_sig, lambda z: z.compute()),
    ("persist", any_sig, lambda z: z.persist()),
    ("to_dask_array", any_sig, lambda z: z.to_dask_array()),
    ("rechunk", any_sig, lambda z: z.rechunk()),
    ("like", any_sig, lambda z: type(z).like(z)),
    ("like new data", any_sig, lambda z: type(z).like(z, z.data[:4])),
    # calls that must raise (the inputs must survive those too)
    ("ERR snippet out of range", any_sig, lambda z: pb.snippet(z, len(z) - 1, 5)),
    ("ERR concatenate gap", any_sig, lambda z: pb.concatenate([z[:3], z[4:]])),
    ("ERR freq_shift bad unit", is_bb, lambda z: pb.freq_shift(z, 1 * u.s)),
    ("ERR matmul", any_sig, lambda z: z @ z),
    ("ERR reduce", any_sig, lambda z: np.add.reduce(z)),
]


def applicable(z):
    return [(n, f) for n, a, f in OPS if a(z)]
