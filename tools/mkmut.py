#!/usr/bin/env python3
"""mkmut.py <out.diff> <repo-relative-file> <old> <new> [count]: write a one-replacement mutant patch (repo left clean)."""
import subprocess, sys, os
out, rel, old, new = sys.argv[1:5]
p = os.path.join('/repo', rel); s = open(p).read()
assert old in s, "old text not found"
open(p, 'w').write(s.replace(old, new, 1))
d = subprocess.run(['git', '-C', '/repo', 'diff'], capture_output=True, text=True).stdout
subprocess.run(['git', '-C', '/repo', 'checkout', '--', rel])
os.makedirs(os.path.dirname(os.path.abspath(out)), exist_ok=True)
open(out, 'w').write(d); print("wrote", out, len(d.splitlines()), "lines")
