#!/bin/bash
# Runs the pinned suite in $1 (default /repo) and prints failures that are NOT in BASELINE always_fail.
repo="${1:-/repo}"
cd "$repo" && /venv/bin/python -m pytest -q -p no:cacheprovider --timeout=900 -n 12 -rf -W ignore 2>&1 | grep -v Warning | grep -E '^(FAILED|ERROR)|passed|failed' | grep -v -E 'TestPhase::test_basic|TestPhase::test_common_operations|TestPhase::test_math_operations|TestPredictor::test_basic|TestPredictor::test_polyco_entry|TestPredictor::test_stringio|TestPredictor::test_time_at'
