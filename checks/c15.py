"""C15 -- Phase ordering, reductions and decimal I/O use the full two-part value.

Enumerated: all ordered pairs of a 40+ value grid (near-ties below the double resolution of the count, ties,
mixed signs) x 6 comparisons x scalar/array/Quantity forms; ALL arrays of length <= 4 over a 10-value subset
(+ 2-D reshapes, every axis) for min/max/argmin/argmax/sort/argsort/ptp; EVERY string of a decimal grammar for
from_string; to_string / precision 0..12 / format '.kf' over the value grid; round trips.
Oracle: exact Fractions.
"""
import itertools
import math
import re
import sys
from fractions import Fraction as F

import numpy as np
import astropy.units as u

from pbmc import bind_repo, report

pb = bind_repo()
Phase = pb.Phase
PID = "C15"
TOL = F(1, 2 ** 52)

CNT = [0.0, 7.0, 1e15, -1e15, float(2 ** 52 - 1), float(2 ** 40), float(2 ** 40) + 1, 1e15 + 1]
FRC = [0.0, 1e-7, -1e-7, 2.0 ** -40, -(2.0 ** -40), 0.5, -0.5, 0.3, 0.4999, -0.4999]
SUBSET = [(1e15, 0.0), (1e15, 1e-7), (1e15, -1e-7), (1e15 + 1, -0.4999), (1e15, 0.4999), (7.0, 0.3), (0.0, 0.0),
          (-1e15, 1e-7), (float(2 ** 40) + 1, -0.49999), (float(2 ** 40), 0.49999)]
OPS = [("lt", np.less, lambda a, b: a < b), ("le", np.less_equal, lambda a, b: a <= b), ("gt", np.greater, lambda a, b: a > b),
       ("ge", np.greater_equal, lambda a, b: a >= b), ("eq", np.equal, lambda a, b: a == b), ("ne", np.not_equal, lambda a, b: a != b)]

SIGNS = ["", "+", "-"]
INTS = ["", "0", "5", "12", "9876543210", "146750669817"]
FRACS_S = [None, "", "0", "5", "25", "05", "0123456789", "214345000000000001", "999999999999999999"]
EXPS = [None, "e0", "e3", "E-2", "d+1", "D-12", "e-3", "e5", "E+0"]
SUFS = ["", "j"]


def describe(tier):
    return {
        "bounds": {"ordering grid": f"{len(CNT)} counts x {len(FRC)} fractions, all ordered pairs", "reduction arrays":
                   "all 10^k arrays, k <= 4 (thorough) / k <= 3 + length-4 arrays over a 6-value subset (quick), 2-D reshapes",
                   "strings": f"{len(SIGNS)}x{len(INTS)}x{len(FRACS_S)}x{len(EXPS)}x{len(SUFS)} grammar", "precision": "0..12"},
        "alphabet": ["< <= > >= == != (operators and ufuncs, Phase/Quantity/array)", "min max argmin argmax sort argsort ptp "
                     "(axis None/0/1/-1)", "to_string()", "to_string(precision=k)", "format(p, '.kf')", "from_string",
                     "from_string(to_string(p))"],
        "rule": "state = one (pair, comparison, form) / one array / one string / one (value, precision); results compared with the "
                "ordering of exact Fractions; rendered strings parsed back with Fraction and required to be the exact value "
                "rounded at the last digit shown (ties either way); parsed strings within 2^-52 of Fraction(s)",
    }


def gen_cases(tier, seed):
    for i in range(len(CNT)):
        yield {"kind": "order", "ci": i}
    k = 4 if tier == "thorough" else 3
    for first in range(len(SUBSET)):
        yield {"kind": "reduce", "first": first, "k": k}
    for first in range(6):
        for second in range(6):
            yield {"kind": "reduce4", "tier": tier, "first": first, "second": second}
    for si in range(len(SIGNS)):
        for ii in range(len(INTS)):
            yield {"kind": "parse", "sign": si, "int": ii}
    # EVERY decimal with four fractional digits (and a few exponent spellings) under a handful of integer parts
    for ip in ("0", "1", "5", "53", "536", "4095", "123456789012", "4503599627370495"):
        for sg in ("", "-"):
            yield {"kind": "decimals", "int": ip, "sign": sg, "digits": 4 if tier == "quick" else 5}
    for i in range(len(CNT)):
        yield {"kind": "render", "ci": i}


def mk(n, f):
    return Phase(np.float64(n), np.float64(f))


def ex(p):
    v = np.asarray(p).view(np.ndarray)
    return [F(float(a)) + F(float(b)) for a, b in zip(np.atleast_1d(v["int"]).ravel(), np.atleast_1d(v["frac"]).ravel())]


def normalised(p):
    v = np.asarray(p).view(np.ndarray)
    i, f = np.atleast_1d(v["int"]).ravel(), np.atleast_1d(v["frac"]).ravel()
    return bool(np.all(i == np.floor(i)) and np.all(np.abs(f) <= 0.5))


def order_case(case, res):
    n1 = CNT[case["ci"]]
    grid = [(n, f) for n in CNT for f in FRC]
    allp = Phase(np.array([g[0] for g in grid]), np.array([g[1] for g in grid]))
    allv = ex(allp)
    for f1 in FRC:
        p = mk(n1, f1)
        pv = ex(p)[0]
        # array form: p against the whole grid in one call
        for name, uf, op in OPS:
            want = np.array([op(pv, qv) for qv in allv])
            buf1, buf2 = np.zeros(len(grid), bool), np.ones(len(grid), bool)
            for form, fn in (("operator", lambda: op(p, allp)), ("ufunc", lambda: uf(p, allp)), ("reversed", lambda: op(allp, p)),
                             ("ufunc out=", lambda: uf(p, allp, out=buf1)), ("ufunc out=(tuple)", lambda: uf(p, allp, out=(buf2,))[...])):
                try:
                    got = np.asarray(fn())
                except Exception as e:
                    res.violation(f"compare|{name}|{form}|raised", f"{type(e).__name__}: {e}", case, {"n": n1, "f": repr(f1)})
                    continue
                res.transitions += 1
                res.traces += 1
                w = want if form != "reversed" else np.array([op(qv, pv) for qv in allv])
                if got.shape != w.shape or got.dtype != bool or np.any(got != w):
                    j = int(np.argmax(got != w)) if got.shape == w.shape else 0
                    res.violation(f"compare|{name}|{form}|array", f"({n1!r}, {f1!r}) {name} ({grid[j][0]!r}, {grid[j][1]!r}) = "
                                  f"{got.flat[j] if got.size > j else got!r}, exact ordering says {bool(w[j])}", case,
                                  {"n": n1, "f": repr(f1), "other": list(grid[j])})
        # equality of whole arrays (np.array_equal / np.array_equiv) and the ufuncs' outer form: same exact decisions
        two = Phase(np.array([n1, n1]), np.array([f1, f1]))
        for (n2, f2), qv in list(zip(grid, allv))[:: max(1, len(grid) // 40)]:
            other = Phase(np.array([n2, n2]), np.array([f2, f2]))
            sub = {"a": [n1, repr(f1)], "b": [n2, repr(f2)]}
            for fname, fn, want in (("np.array_equal", lambda: np.array_equal(two, other), pv == qv),
                                    ("np.array_equiv", lambda: np.array_equiv(two, other[:1]), pv == qv),
                                    ("np.less.outer", lambda: np.less.outer(two, other), pv < qv),
                                    ("np.equal.outer", lambda: np.equal.outer(two, other), pv == qv),
                                    ("np.greater_equal.outer", lambda: np.greater_equal.outer(two, other[:1]), pv >= qv)):
                try:
                    got = fn()
                except Exception as e:
                    res.violation(f"compare|{fname}|raised", f"{type(e).__name__}: {e} [{sub}]", case, sub)
                    continue
                res.transitions += 1
                g = np.asarray(got)
                shape_ok = g.shape == (() if "array_" in fname else ((2, 2) if fname != "np.greater_equal.outer" else (2, 1)))
                if not shape_ok or g.dtype != bool or not np.all(g == want):
                    res.violation(f"compare|{fname}", f"{fname} of arrays holding ({n1!r}, {f1!r}) and ({n2!r}, {f2!r}) = {got!r}, "
                                  f"exact values say {want}", case, sub)
        res.hits["array_equal / array_equiv / outer comparisons"] += 1
        # pairs whose fractions are almost a whole cycle apart: (n - 1, 1/2 - 2^-54) against (n, -1/2), and mirrored
        if case["ci"] == 0 and f1 == FRC[0]:
            h = 0.5 - 2.0 ** -54
            lo, hi = Phase(-0.5000000000000001, 5e-17), Phase(0.5000000000000001, -5e-17)      # stored as (-1, h) and (1, -h)
            lo_arr = Phase(np.array([-0.5000000000000001, -0.5000000000000001]), np.array([5e-17, 5e-17]))
            hi_arr = Phase(np.array([0.5000000000000001, 0.5000000000000001]), np.array([-5e-17, -5e-17]))
            # (these states survive no arithmetic - adding a whole number renormalises them - so the offsets below mostly give
            # ordinary pairs; the two-argument constructor is the only way in)
            for n in (0.0, 1.0, float(2 ** 40)):
                for a, b in ((lo, Phase(-0.5)), (hi, Phase(0.5)), (lo, Phase(0.0, -0.5)), (hi, Phase(0.0, 0.5)), (lo, hi),
                             (lo + n, Phase(n, -0.5)), (hi + n, Phase(n, 0.5)), (Phase(n, -0.5), Phase(n - 1, 0.5))):
                    if abs(float(np.asarray(a["frac"].value))) == h:
                        res.hits["stored fraction one ulp inside a half"] += 1
                    av, bv = ex(a)[0], ex(b)[0]
                    sub = {"a": [float(np.asarray(a["int"].value)), repr(float(np.asarray(a["frac"].value)))],
                           "b": [float(np.asarray(b["int"].value)), repr(float(np.asarray(b["frac"].value)))]}
                    for name, uf, op in OPS:
                        for x, y, xv, yv in ((a, b, av, bv), (b, a, bv, av)):
                            res.transitions += 1
                            try:
                                got = bool(op(x, y))
                                # (the array form: the same state twice, built with the same constructor arguments)
                                xa = {id(lo): lo_arr, id(hi): hi_arr}.get(id(x))
                                got2 = got if xa is None else bool(np.all(uf(xa, y)))
                            except Exception as e:
                                res.violation(f"compare|{name}|half-cycle boundary raised", f"{type(e).__name__}: {e} [{sub}]", case, sub)
                                continue
                            if got != op(xv, yv) or got2 != op(xv, yv):
                                res.violation(f"compare|{name}|half-cycle boundary", f"phases stored as {sub['a']} and {sub['b']} (exact values "
                                              f"{float(av)!r} - 2^-54-ish apart): {name} gives {got} / {got2}, exact ordering says {op(xv, yv)}",
                                              case, sub)
                    res.transitions += 1
                    if bool(np.array_equal(a, b)) != (av == bv):
                        res.violation("compare|np.array_equal|half-cycle boundary", f"{sub}", case, sub)
            res.hits["fractions almost a whole cycle apart"] += 1
        # scalar forms against every grid value, Phase and Quantity
        for (n2, f2), qv in zip(grid, allv):
            q = mk(n2, f2)
            res.state(("cmp", n1, f1, n2, f2))
            sub = {"a": [n1, repr(f1)], "b": [n2, repr(f2)]}
            if pv != qv and float(pv) == float(qv):
                res.hits["near-tie below double resolution"] += 1
            if pv == qv:
                res.hits["exact tie"] += 1
            for name, uf, op in OPS:
                want = op(pv, qv)
                try:
                    got = op(p, q)
                except Exception as e:
                    res.violation(f"compare|{name}|scalar|raised", f"{type(e).__name__}: {e} [{sub}]", case, sub)
                    continue
                res.transitions += 1
                if bool(got) != want:
                    res.violation(f"compare|{name}|scalar", f"({n1!r}, {f1!r}) {name} ({n2!r}, {f2!r}) = {bool(got)}, exact ordering "
                                  f"says {want}", case, sub)
            # Phase vs plain cycle Quantity (single double on the other side): compare with that double's exact value
            x = n2 + f2
            qq = x * u.cycle
            for name, uf, op in OPS[:4]:
                want = op(pv, F(x))
                got = op(p, qq)
                res.transitions += 1
                if bool(got) != want:
                    res.violation(f"compare|{name}|Quantity", f"({n1!r}, {f1!r}) {name} {x!r} cycle = {bool(got)}, expected {want}",
                                  case, sub)
                # the ufunc called directly with the non-Phase operand FIRST (operand order must be kept)
                for oname, other in (("Quantity", qq), ("float", float(x)), ("0-d array", np.array(x))):
                    try:
                        got2 = uf(other, p)
                    except Exception as e:
                        res.violation(f"compare|{name}|ufunc({oname}, phase) raised", f"{type(e).__name__}: {e}", case, sub)
                        continue
                    res.transitions += 1
                    want2 = op(F(x), pv)
                    if bool(got2) != want2:
                        res.violation(f"compare|{name}|ufunc({oname}, phase)", f"np.{uf.__name__}({x!r}, ({n1!r}, {f1!r})) = {bool(got2)}, "
                                      f"expected {want2}", case, sub)
    # equality against a non-angle: False / True, never an exception
    p = mk(n1, 0.3)
    res.transitions += 2
    try:
        if (p == 3 * u.m) is not False and bool(p == 3 * u.m):
            res.violation("compare|eq|unit mismatch", "Phase == length is True", case, None)
        if not bool(p != 3 * u.m):
            res.violation("compare|ne|unit mismatch", "Phase != length is False", case, None)
    except Exception as e:
        res.violation("compare|unit mismatch raised", f"{type(e).__name__}: {e}", case, None)
    res.sample({"count": n1, "pairs": len(FRC) * len(grid), "comparisons": 6}, 1)


def check_reductions(res, case, arr_vals, shape, sub, layout="C"):
    """arr_vals: list of (n, f); build the Phase array with `shape` and check every reduction on every axis.
    layout "T": the same logical array as a transposed view of a C-contiguous array (memory order != index order)."""
    ints, fracs = np.array([v[0] for v in arr_vals]).reshape(shape), np.array([v[1] for v in arr_vals]).reshape(shape)
    if layout == "T" and len(shape) > 1:
        P = Phase(np.ascontiguousarray(ints.T), np.ascontiguousarray(fracs.T)).T
        if P.shape != tuple(shape) or P.flags["C_CONTIGUOUS"]:
            res.skipped["transposed view not available"] += 1
            return
        sub = dict(sub, layout="transposed view")
        res.hits["transposed view"] += 1
    else:
        P = Phase(ints, fracs)
    E = np.array(ex(P), dtype=object).reshape(shape)
    axes = [None] + list(range(len(shape))) + ([-1] if len(shape) > 1 else [])
    for axis in axes:
        s2 = dict(sub, axis=axis, shape=list(shape))
        if axis is None:
            lanes = [(E.ravel(), None)]
        else:
            lanes = None
        # --- min / max / argmin / argmax / ptp
        for name in ("min", "max", "argmin", "argmax", "ptp"):
            try:
                got = getattr(P, name)(axis) if axis is not None else getattr(P, name)()
            except Exception as e:
                res.violation(f"reduce|{name}|raised", f"{type(e).__name__}: {e} [{s2}]", case, s2)
                continue
            res.transitions += 1
            res.traces += 1
            Em = np.moveaxis(E, axis, -1) if axis is not None else E.reshape(1, -1)
            Em2 = Em.reshape(-1, Em.shape[-1])
            if name in ("argmin", "argmax"):
                g = np.atleast_1d(np.asarray(got)).ravel()
                if len(g) != len(Em2):
                    res.violation(f"reduce|{name}|shape", f"{np.shape(got)} [{s2}]", case, s2)
                    continue
                for lane, idx in zip(Em2, g):
                    best = min(lane) if name == "argmin" else max(lane)
                    if not (0 <= int(idx) < len(lane)) or lane[int(idx)] != best:
                        res.violation(f"reduce|{name}", f"{name} -> index {int(idx)} (value {float(lane[int(idx)]) if 0 <= int(idx) < len(lane) else None!r}), "
                                      f"exact {name[3:]} is {float(best)!r} in lane {[float(x) for x in lane]} [{s2}]", case, s2)
                        break
            else:
                if type(got) is not Phase:
                    res.violation(f"reduce|{name}|not a Phase", f"{type(got).__name__} [{s2}]", case, s2)
                    continue
                gv = ex(got)
                if len(gv) != len(Em2):
                    res.violation(f"reduce|{name}|shape", f"{got.shape} [{s2}]", case, s2)
                    continue
                if not normalised(got):
                    res.violation(f"reduce|{name}|not normalised", f"{got!r} [{s2}]", case, s2)
                for lane, g in zip(Em2, gv):
                    want = {"min": min(lane), "max": max(lane), "ptp": max(lane) - min(lane)}[name]
                    if abs(g - want) > (TOL if name == "ptp" else 0):
                        res.violation(f"reduce|{name}", f"{name} = {float(g)!r}, exact {float(want)!r} (lane {[float(x) for x in lane]}) "
                                      f"[{s2}]", case, s2)
                        break
        # --- the NumPy function forms (np.ptp(P) is the only spelling NumPy 2 offers for arrays) agree with the methods
        import zlib as _z
        np_forms = len(arr_vals) <= 2 or len(shape) > 1 or _z.crc32(repr(arr_vals).encode()) % 3 == 0      # (a third of the longer 1-d arrays)
        for name in (("min", "max", "argmin", "argmax", "ptp", "sort", "argsort") if np_forms else ()):
            try:
                kw_ = {"axis": axis} if (axis is not None or name in ("sort", "argsort")) else {}
                via_np = getattr(np, name)(P, **kw_)
                via_m = getattr(P, name)(axis) if (axis is not None or name in ("sort", "argsort")) else getattr(P, name)()
            except Exception as e:
                res.violation(f"reduce|np.{name}|raised", f"np.{name}(P, axis={axis}): {type(e).__name__}: {e} [{s2}]", case, s2)
                continue
            res.transitions += 1
            same = (type(via_np) is type(via_m)) and (ex(via_np) == ex(via_m) if type(via_m) is Phase else
                                                      np.array_equal(np.asarray(via_np), np.asarray(via_m)))
            if not same:
                res.violation(f"reduce|np.{name} differs from the method", f"np.{name}(P, axis={axis}) = {via_np!r}, P.{name}() = "
                              f"{via_m!r} [{s2}]", case, s2)
        # --- keepdims=True: the same values with the reduced axes kept as length 1
        for name in ("min", "max", "ptp"):
            try:
                plain = getattr(P, name)(axis) if axis is not None else getattr(P, name)()
                kd = getattr(P, name)(axis=axis, keepdims=True)
            except Exception as e:
                res.violation(f"reduce|{name}(keepdims)|raised", f"{type(e).__name__}: {e} [{s2}]", case, s2)
                continue
            res.transitions += 1
            # (the statement fixes values, not the shape convention of keepdims: only values are compared)
            if type(kd) is not Phase or ex(kd) != ex(plain):
                res.violation(f"reduce|{name}(keepdims)", f"keepdims=True gives other values than the plain reduction [{s2}]", case, s2)
        # --- sort / argsort (axis None flattens)
        for name in ("sort", "argsort"):
            try:
                got = getattr(P, name)(axis)
            except Exception as e:
                res.violation(f"reduce|{name}|raised", f"{type(e).__name__}: {e} [{s2}]", case, s2)
                continue
            res.transitions += 1
            res.traces += 1
            Em = np.moveaxis(E, axis, -1) if axis is not None else E.reshape(1, -1)
            Em2 = Em.reshape(-1, Em.shape[-1])
            if name == "argsort":
                g = np.asarray(got)
                g = np.moveaxis(g, axis, -1).reshape(-1, Em.shape[-1]) if axis is not None else g.reshape(1, -1)
                for lane, idx in zip(Em2, g):
                    if sorted(int(i) for i in idx) != list(range(len(lane))):
                        res.violation("reduce|argsort|not a permutation", f"{idx} [{s2}]", case, s2)
                        break
                    seq = [lane[int(i)] for i in idx]
                    if any(seq[i] > seq[i + 1] for i in range(len(seq) - 1)):
                        res.violation("reduce|argsort", f"argsort -> {[int(i) for i in idx]} orders the lane as "
                                      f"{[float(x) for x in seq]} (not ascending in the exact values; lane (int, frac) = "
                                      f"{[arr_vals[i] for i in range(len(arr_vals))][:len(lane)] if len(shape) == 1 else '...'}) [{s2}]", case, s2)
                        break
            else:
                if type(got) is not Phase:
                    res.violation("reduce|sort|not a Phase", f"{type(got).__name__} [{s2}]", case, s2)
                    continue
                gv = np.array(ex(got), dtype=object)
                gv = gv.reshape(got.shape)
                gm = np.moveaxis(gv, axis, -1).reshape(-1, Em.shape[-1]) if axis is not None else gv.reshape(1, -1)
                if not normalised(got):
                    res.violation("reduce|sort|not normalised", f"[{s2}]", case, s2)
                for lane, g in zip(Em2, gm):
                    if sorted(lane) != list(g):
                        res.violation("reduce|sort", f"sort -> {[float(x) for x in g]}, exact ascending order is "
                                      f"{[float(x) for x in sorted(lane)]} [{s2}]", case, s2)
                        break


def reduce_case(case, res):
    k = case["k"]
    first = SUBSET[case["first"]]
    for length in range(1, k + 1):
        for rest in itertools.product(range(len(SUBSET)), repeat=length - 1):
            vals = [first] + [SUBSET[i] for i in rest]
            res.state(("red", case["first"], rest))
            check_reductions(res, case, vals, (length,), {"values": [list(v) for v in vals]})
            if length == 4:
                check_reductions(res, case, vals, (2, 2), {"values": [list(v) for v in vals]})
                check_reductions(res, case, vals, (2, 2), {"values": [list(v) for v in vals]}, layout="T")
            e = [F(a) + F(b) for a, b in vals]
            if len(set(e)) < len(e):
                res.hits["array with exact ties"] += 1
            if len({float(x) for x in e}) < len(set(e)):
                res.hits["array with sub-ulp near-ties"] += 1
    res.sample({"first": list(first), "max_length": k}, 1)


def inplace_history(res, case, vals, sub):
    """Use the array (sort / min / value), update it in place, then sort again: no stale derived state."""
    P = Phase(np.array([v[0] for v in vals]), np.array([v[1] for v in vals]))
    _ = (P.sort(), P.argsort(), P.min(), P.max(), P.value, P.cycle)
    d = Phase(np.array([3.0, -2.0, 0.0, 5.0][:len(vals)]), np.array([0.25, -0.125, 0.4, 0.0][:len(vals)]))
    for step, fn in (("+=", lambda: P.__iadd__(d)), ("-=", lambda: P.__isub__(d * 2)), ("out=", lambda: np.add(P, d, out=P))):
        try:
            fn()
        except Exception as e:
            res.violation("history|in-place raised", f"{step}: {type(e).__name__}: {e}", case, sub)
            return
        res.transitions += 1
        E = ex(P)
        srt = ex(P.sort())
        idx = [int(i) for i in np.asarray(P.argsort())]
        if srt != sorted(E) or [E[i] for i in idx] != sorted(E):
            res.violation("history|sort after in-place update", f"after '{step}' on an array that had been sorted before, sort()/argsort() "
                          f"order by stale values: {[float(x) for x in srt]} vs {[float(x) for x in sorted(E)]}", case, dict(sub, step=step))
            return
        if ex(P.min())[0] != min(E) or ex(P.max())[0] != max(E) or int(P.argmax()) not in [i for i, v in enumerate(E) if v == max(E)]:
            res.violation("history|min/max after in-place update", f"after '{step}'", case, dict(sub, step=step))
            return
    res.hits["use, update in place, sort again"] += 1


def reduce4_case(case, res):
    """length-4 arrays and their 2x2 reshapes over the six hardest values (all 6^4), quick and thorough."""
    hard = [SUBSET[i] for i in (1, 2, 3, 4, 8, 9)]
    if case.get("first", 0) % 2:
        # near-ties whose single-double value rounds onto count + 1/2 (the fraction's last bit decides the order)
        n51 = float(2 ** 51 + 1)
        hard = [(n51, float(np.nextafter(0.3, 1))), (n51, 0.3), (4.0, 0.5 - 3 * 2.0 ** -54), (4.0, 0.5 - 4 * 2.0 ** -54),
                (-n51, float(np.nextafter(-0.3, -1))), (-n51, -0.3)]
    for combo in itertools.product(range(len(hard)), repeat=4):
        if combo[0] != case.get("first", combo[0]) or combo[1] != case.get("second", combo[1]):
            continue
        vals = [hard[i] for i in combo]
        res.state(("red4", combo))
        check_reductions(res, case, vals, (4,), {"values": [list(v) for v in vals]})
        check_reductions(res, case, vals, (2, 2), {"values": [list(v) for v in vals]})
        check_reductions(res, case, vals, (2, 2), {"values": [list(v) for v in vals]}, layout="T")
        if combo[0] <= 1:
            inplace_history(res, case, vals, {"values": [list(v) for v in vals]})
    res.hits["2-D reshapes"] += 1
    res.sample({"hard values": [list(v) for v in hard], "arrays": 6 ** 4}, 1)


def parse_case(case, res):
    sg, ip = SIGNS[case["sign"]], INTS[case["int"]]
    strings = []
    for fp, ex_, sf in itertools.product(FRACS_S, EXPS, SUFS):
        if ip == "" and (fp is None or fp == ""):
            continue
        mant = ip + ("" if fp is None else "." + fp)
        strings.append((sg + mant + (ex_ or "") + sf, (sg + mant + (ex_ or "")).lower().replace("d", "e"), sf == "j", fp, ex_))
    good = []
    for s, dec, imag, fp, ex_ in strings:
        want = F(dec)
        if abs(want) > 2 ** 52:
            res.skipped["string value beyond 2^52 cycles"] += 1
            continue
        res.state(("parse", s))
        if len(good) % 7 == 0:
            # interpreter-wide settings a user may have changed must not change what a string means
            import decimal
            try:
                with decimal.localcontext() as ctx:
                    ctx.prec = 6
                    ctx.rounding = decimal.ROUND_UP
                    with np.printoptions(precision=3, floatmode="fixed", legacy="1.25"):
                        a_ = Phase.from_string(s)
                b_ = Phase.from_string(s)
                res.transitions += 2
                if ex(a_) != ex(b_):
                    res.violation("from_string|depends on the decimal context / print options", f"from_string({s!r}) = "
                                  f"{float(ex(a_)[0])!r} under decimal precision 6, {float(ex(b_)[0])!r} normally", case, {"s": s})
                else:
                    res.hits["ambient decimal context and print options"] += 1
            except Exception:
                pass
        try:
            p = Phase.from_string(s)
        except Exception as e:
            res.transitions += 1
            res.violation(f"from_string|raised|{type(e).__name__}", f"from_string({s!r}): {type(e).__name__}: {e}", case, {"s": s})
            continue
        res.transitions += 1
        res.traces += 1
        if type(p) is not Phase or not normalised(p):
            res.violation("from_string|not a normalised Phase", f"from_string({s!r}) -> {p!r}", case, {"s": s})
            continue
        got = ex(p)[0]
        if abs(got - want) > TOL:
            res.violation("from_string|value", f"from_string({s!r}) = {float(got)!r}, decimal value {float(want)!r} "
                          f"(err {float(abs(got - want)):.3g})", case, {"s": s})
            continue
        if want != 0 and bool(p.imaginary) != imag:
            res.violation("from_string|imaginary flag", f"from_string({s!r}) has imaginary={p.imaginary}", case, {"s": s})
            continue
        if want == 0 and not imag and p.imaginary:
            res.violation("from_string|real zero is imaginary", f"from_string({s!r}) is imaginary", case, {"s": s})
            continue
        good.append((s, want, imag))
        if ip in ("", "0"):
            res.hits["zero or missing integer part"] += 1
        if fp in (None, "", "0"):
            res.hits["zero or missing fractional part"] += 1
        if ex_ and ex_[0] in "dD":
            res.hits["D exponent"] += 1
    # array of strings (same imaginary-ness)
    for imag in (False, True):
        ss = [g for g in good if g[2] == imag and g[1] != 0][:40]
        if len(ss) >= 2:
            try:
                P = Phase.from_string(np.array([g[0] for g in ss]))
                res.transitions += 1
                gv = ex(P)
                if any(abs(a - g[1]) > TOL for a, g in zip(gv, ss)):
                    res.violation("from_string|array value", "array of strings parsed differently from the scalars", case, None)
            except Exception as e:
                res.violation("from_string|array raised", f"{type(e).__name__}: {e}", case, {"n": len(ss)})
            # byte strings (NumPy 'S' arrays, as read from binary tables) are accepted input: same values
            for form, arg in (("bytes", ss[0][0].encode("ascii")), ("array of bytes", np.array([g[0].encode("ascii") for g in ss])),
                              ("np.str_", np.str_(ss[1][0]))):
                res.transitions += 1
                try:
                    gv = ex(Phase.from_string(arg))
                except Exception as e:
                    res.violation(f"from_string|{form} raised", f"from_string({arg!r:.60}): {type(e).__name__}: {e}", case, {"form": form})
                    continue
                wants = [ss[0][1]] if form == "bytes" else ([ss[1][1]] if form == "np.str_" else [g[1] for g in ss])
                if len(gv) != len(wants) or any(abs(a - w) > TOL for a, w in zip(gv, wants)):
                    res.violation(f"from_string|{form} value", f"from_string({arg!r:.60}) parsed differently from the text", case, {"form": form})
            res.hits["byte strings"] += 1
    res.sample({"sign": sg, "int": ip, "strings": len(strings), "example": strings[len(strings) // 2][0]}, 1)


DEC = re.compile(r"^([+-]?)(\d+)(?:\.(\d*))?(j?)$")


def render_dense(case, res, n):
    """Default rendering (no precision) of EVERY fraction i/4999 - 1/2: within 1e-16 cycle, and parses back to the same phase."""
    bad = 0
    for i in range(5000):
        f = i / 4999 - 0.5
        p = mk(n, f)
        pv = ex(p)[0]
        if abs(pv) > 2 ** 52:
            continue
        res.transitions += 2
        try:
            s_ = str(p.to_string())
            ok = bool(DEC.match(s_)) and abs(F(s_) - pv) <= F(1, 10 ** 16) and abs(ex(Phase.from_string(s_))[0] - pv) <= TOL
        except Exception as e:
            ok, s_ = False, repr(e)
        if not ok:
            bad += 1
            if bad <= 2:
                res.violation("to_string|dense fractions|value", f"to_string() of ({n!r}, {f!r}) = {s_!r}: off by "
                              f"{float(abs(F(s_) - pv)) if DEC.match(str(s_)) else 'n/a'!r} (> 1e-16) or does not parse back", case,
                              {"n": n, "f": repr(f)})
    # imaginary phases: fixed-point format shows exactly the requested number of decimals
    for f in (0.5, 0.25, -0.3):
        q = mk(n, f) * 1j
        for k in (0, 3, 7):
            res.transitions += 1
            try:
                s_ = format(q, f".{k}f")
                body = s_[:-1] if s_.endswith("j") else None
                m = DEC.match(body) if body is not None else None
                if not m or len(m.group(3) or "") != k:
                    res.violation("format|imaginary phase", f"format(1j*p, '.{k}f') = {s_!r}: not a decimal with {k} digits followed by j", case,
                                  {"n": n, "f": repr(f), "k": k})
            except Exception as e:
                res.violation("format|imaginary phase raised", f"{type(e).__name__}: {e}", case, {"k": k})
    if not bad:
        res.hits["dense fractions rendered"] += 1


def render_case(case, res):
    n = CNT[case["ci"]]
    render_dense(case, res, n)
    render_dense(case, res, -n)
    fr = FRC + [0.1, 0.25, 0.2, 0.04, 0.96, 0.999999, 0.49999999999999994, 1e-16, 2e-17, 1e-300, 0.75, 0.05, 0.949999]
    for f in fr:
        for sign in (1, -1):
            p = mk(sign * n, sign * f) if sign == 1 else -mk(n, f)
            pv = ex(p)[0]
            if abs(pv) > 2 ** 52:
                continue
            sub = {"n": sign * n, "f": repr(sign * f)}
            res.state(("render", n, f, sign))
            # default rendering: within 1e-16 cycles, and parses back to the same phase
            try:
                s = str(p.to_string())
            except Exception as e:
                res.violation("to_string|raised", f"{type(e).__name__}: {e} [{sub}]", case, sub)
                continue
            res.transitions += 1
            res.traces += 1
            m = DEC.match(s)
            if not m:
                res.violation("to_string|malformed", f"to_string() = {s!r} is not a plain decimal [{sub}]", case, sub)
            else:
                val = F(s)
                if abs(val - pv) > F(1, 10 ** 16):
                    res.violation("to_string|value", f"to_string() = {s!r} differs from the exact value by {float(abs(val - pv)):.3g} "
                                  f"(> 1e-16) [{sub}]", case, sub)
                try:
                    back = Phase.from_string(s)
                    res.transitions += 1
                    if abs(ex(back)[0] - pv) > TOL:
                        res.violation("roundtrip|from_string(to_string(p))", f"{s!r} -> {float(ex(back)[0])!r}, p = {float(pv)!r} "
                                      f"[{sub}]", case, sub)
                    else:
                        res.hits["round trip"] += 1
                except Exception as e:
                    res.violation("roundtrip|raised", f"from_string({s!r}): {type(e).__name__}: {e} [{sub}]", case, sub)
            import decimal as _dec
            with _dec.localcontext() as _ctx:
                _ctx.prec = 5
                with np.printoptions(precision=2, floatmode="fixed"):
                    try:
                        amb = (str(p.to_string()), str(p.to_string(precision=9)), format(p, ".7f"))
                    except Exception as e:
                        amb = repr(e)
            try:
                norm = (str(p.to_string()), str(p.to_string(precision=9)), format(p, ".7f"))
            except Exception as e:
                norm = repr(e)
            res.transitions += 2
            if amb != norm:
                res.violation("to_string|depends on the decimal context / print options", f"{amb!r} under decimal precision 5 and print "
                              f"precision 2, {norm!r} normally [{sub}]", case, sub)
            # optional keywords that spell the default: the same text
            import pickle as _pickle
            base_default, base_p12 = str(p.to_string()), str(p.to_string(precision=12))
            for kwname, kw in (("unit='cycle'", {"unit": "cycle"}), ("unit='cy'", {"unit": "cy"}), ("unit=u.Unit('cycle')", {"unit": u.Unit("cycle")}),
                               ("unit=unpickled u.cycle", {"unit": _pickle.loads(_pickle.dumps(u.cycle))}), ("unit=u.cycle", {"unit": u.cycle}),
                               ("decimal=True", {"decimal": True}), ("alwayssign=False", {"alwayssign": False})):
                try:
                    a_, b_ = str(p.to_string(**kw)), str(p.to_string(precision=12, **kw))
                except Exception as e:
                    res.violation(f"to_string|keyword {kwname} raised", f"{type(e).__name__}: {e} [{sub}]", case, dict(sub, kw=kwname))
                    continue
                res.transitions += 2
                if a_ != base_default or b_ != base_p12:
                    res.violation(f"to_string|keyword spelling the default changes the text", f"to_string({kwname}) = {a_!r} / {b_!r}, "
                                  f"without it {base_default!r} / {base_p12!r} [{sub}]", case, dict(sub, kw=kwname))
                    break
            else:
                res.hits["unit keyword spellings"] += 1
            try:
                sp = str(p.to_string(alwayssign=True, precision=6))
                res.transitions += 1
                want_sp = str(p.to_string(precision=6))
                want_sp = want_sp if want_sp.startswith("-") else "+" + want_sp
                if sp != want_sp:
                    res.violation("to_string|alwayssign", f"{sp!r}, expected {want_sp!r} [{sub}]", case, sub)
            except Exception as e:
                res.violation("to_string|alwayssign raised", f"{type(e).__name__}: {e} [{sub}]", case, sub)
            for k in list(range(0, 13)) + [15, 17, 20, 25, 30]:          # ("any number of decimals")
                forms = [("to_string(precision)", lambda: str(p.to_string(precision=k)))]
                forms.append(("format", lambda: format(p, f".{k}f")))
                for nm, fn in forms:
                    try:
                        s = fn()
                    except Exception as e:
                        res.violation(f"{nm}|raised", f"precision {k}: {type(e).__name__}: {e} [{sub}]", case, dict(sub, k=k))
                        continue
                    res.transitions += 1
                    res.traces += 1
                    m = DEC.match(s)
                    digits = len(m.group(3) or "") if m else -1
                    if not m or digits != k or (k > 0 and "." not in s):
                        res.violation(f"{nm}|malformed", f"precision {k}: {s!r} is not a decimal with exactly {k} digits after the "
                                      f"point [{sub}]", case, dict(sub, k=k))
                        continue
                    val = F(s)
                    half = F(1, 2 * 10 ** k)
                    if abs(val - pv) > half:
                        res.violation(f"{nm}|value", f"precision {k}: {s!r}, exact value {float(pv)!r} rounded to {k} digits is off "
                                      f"by {float(abs(val - pv) / (2 * half)):.3g} units of the last digit [{sub}]", case, dict(sub, k=k))
                    elif abs(val - pv) == half:
                        res.hits["exact decimal tie (either neighbour accepted)"] += 1
                    if k < 2 and abs(float(ex(p)[0] - math.floor(ex(p)[0]))) < 0.25:
                        res.hits["precision < 2 with small fraction"] += 1
            # fixed-point format specifications with flags, widths, fills and grouping: the NUMBER shown is still the exact value
            # rounded to the digits shown (padding itself is not constrained)
            if pv != 0:
                for k in (1, 3):
                    for spec in (f"z.{k}f", f"+.{k}f", f" .{k}f", f"12.{k}f", f"012.{k}f", f">12.{k}f", f"<12.{k}f", f"^12.{k}f",
                                 f".>12.{k}f", f"*<14.{k}f", f"x^15.{k}f", f",.{k}f", f"+018,.{k}f", f"+z.{k}f", f"0=14.{k}f", f"-.{k}f",
                                 f"#.{k}f", f"_.{k}f", f".{k}F", f"+#018_.{k}f", f"#12.{k}F"):
                        try:
                            s_ = format(p, spec)
                        except Exception as e:
                            res.violation("format(spec)|raised", f"format(p, {spec!r}): {type(e).__name__}: {e} [{sub}]", case, dict(sub, spec=spec))
                            continue
                        res.transitions += 1
                        fill = spec[0] if len(spec) > 1 and spec[1] in "<>^=" else " "
                        core = s_.strip(fill if fill not in "0123456789+-" else " ").strip(" ").replace(",", "").replace("_", "")
                        m = DEC.match(core)
                        ok = bool(m) and len(m.group(3) or "") == k
                        if ok:
                            val = F(core)
                            half = F(1, 2 * 10 ** k)
                            ok = abs(val - pv) <= half and (val == 0 or (val < 0) == (pv < 0))
                            if ok and pv < 0 and val == 0 and "z" not in spec and "-" not in core:
                                ok = True          # (sign of a value that rounds to zero: not constrained)
                        if not ok:
                            res.violation("format(spec)|value", f"format(p, {spec!r}) = {s_!r}; the exact value is {float(pv)!r} [{sub}]", case,
                                          dict(sub, spec=spec))
                            break
                    else:
                        continue
                    break
                else:
                    res.hits["format specifications with flags, fills and grouping"] += 1
    # array rendering
    P = Phase(np.array([n, n]), np.array([0.3, -0.2]))
    try:
        ss = P.to_string(precision=3)
        res.transitions += 1
        if len(ss) != 2 or any(abs(F(str(a)) - b) > F(1, 2000) for a, b in zip(ss, ex(P))):
            res.violation("to_string|array", f"{ss!r}", case, None)
    except Exception as e:
        res.violation("to_string|array raised", f"{type(e).__name__}: {e}", case, None)
    res.sample({"count": n, "fractions": len(fr), "precisions": "0..12"}, 1)


def decimals_case(case, res):
    ip, sg, nd = case["int"], case["sign"], case["digits"]
    bad = 0
    for k in range(10 ** nd):
        fr = f"{k:0{nd}d}"
        for s, dec in ((f"{sg}{ip}.{fr}", f"{sg}{ip}.{fr}"), (f"{sg}{ip}{fr[:1]}.{fr[1:]}e-1", f"{sg}{ip}.{fr}"), (f"{sg}.{ip}{fr}e{len(ip)}", f"{sg}{ip}.{fr}")):
            if s is not dec and k % 10:
                continue                    # (exponent spellings for every tenth value)
            want = F(dec)
            res.transitions += 1
            res.traces += 1
            try:
                p = Phase.from_string(s)
            except Exception as e:
                bad += 1
                if bad <= 3:
                    res.violation(f"from_string|raised|{type(e).__name__}", f"from_string({s!r}): {type(e).__name__}: {e}", case, {"s": s})
                continue
            if type(p) is not Phase or not normalised(p) or abs(ex(p)[0] - want) > TOL or bool(p.imaginary):
                bad += 1
                if bad <= 3:
                    res.violation("from_string|value", f"from_string({s!r}) = {p!r}, decimal value {float(want)!r}", case, {"s": s})
    res.states |= {hash((ip, sg, nd, i)) for i in range(0, 10 ** nd, 97)}
    if not bad:
        res.hits["every four-digit decimal"] += 1
    else:
        res.worst["strings failing in this case"] = max(res.worst.get("strings failing in this case", 0), bad)
    res.sample({"decimals": f"{sg}{ip}.0000 .. {sg}{ip}.{'9' * nd}"}, 1)


def check_case(case):
    res = report.Result()
    {"decimals": decimals_case, "order": order_case, "reduce": reduce_case, "reduce4": reduce4_case, "parse": parse_case, "render": render_case}[case["kind"]](case, res)
    return res


def main(argv=None):
    return report.run_check(
        PID, gen_cases=gen_cases, check_case=check_case, describe=describe,
        required_hits=["near-tie below double resolution", "exact tie", "array with exact ties", "array with sub-ulp near-ties",
                       "2-D reshapes", "zero or missing integer part", "zero or missing fractional part", "D exponent",
                       "round trip", "precision < 2 with small fraction", "use, update in place, sort again", "transposed view", "unit keyword spellings", "ambient decimal context and print options", "dense fractions rendered", "format specifications with flags, fills and grouping", "array_equal / array_equiv / outer comparisons", "byte strings", "fractions almost a whole cycle apart", "stored fraction one ulp inside a half"],
        assumptions=["for exact ties any index/permutation that realises the exact ordering is accepted",
                     "the imaginary flag of an exactly zero value is unconstrained", "format(p, '.0f') (no decimals) falls to the "
                     "Quantity formatter and is not constrained"],
        argv=argv, chunksize=1)


if __name__ == "__main__":
    sys.exit(main())
