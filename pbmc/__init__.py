"""pbmc -- bounded exhaustive exploration ("model checking") engine for pulsarbat.

Every check enumerates a finite, explicitly bounded space of inputs /
operation sequences / schedules on the *real* pulsarbat code imported from
``$PULSARBAT_REPO`` (default /repo) and compares every execution with an
independent reference model.  See /verif/DESIGN.md.
"""
import os
import sys
import warnings

REPO = os.environ.get("PULSARBAT_REPO", "/repo")
VERIF = os.path.dirname(os.path.dirname(os.path.abspath(__file__)))


def bind_repo():
    """Import pulsarbat from the working tree under test and prove it."""
    warnings.filterwarnings("ignore")
    if REPO not in sys.path[:1]:
        sys.path.insert(0, REPO)
    import pulsarbat as pb

    where = os.path.realpath(os.path.dirname(os.path.dirname(pb.__file__)))
    if where != os.path.realpath(REPO):
        raise RuntimeError(f"pulsarbat imported from {where}, expected {REPO}")
    return pb
