"""C20 -- pb.fft equals the reference DFT on both backends; STFT/ISTFT invert and label right.

(1) 14 transform names x ranks 1..3 x shapes x dtypes x every axis / axes pair x length arguments x
    normalisation x NumPy and Dask (chunked off the transformed axes, lazy): against scipy.fft (the
    statement's reference), numpy.fft (independent code) and the long-double DFT definition.
(2) STFT / ISTFT: nchan x alignment x nperseg (odd, even, 1, = length) x N x trailing dims: tones at known
    absolute frequency must land in the sub-channel whose label equals that frequency; metadata; inversion.
"""
import itertools
import sys
from fractions import Fraction as F

import numpy as np
import scipy.fft
import astropy.units as u
import dask.array as da

from pbmc import bind_repo, report, factory, history
from pbmc.exact import time_days as T, hz
from pbmc.oracles import dft

pb = bind_repo()
PID = "C20"
NAMES = ["fft", "fft2", "fftn", "ifft", "ifft2", "ifftn", "rfft", "rfft2", "rfftn", "irfft", "irfft2", "irfftn", "hfft", "ihfft"]
ONE_D = {"fft", "ifft", "rfft", "irfft", "hfft", "ihfft"}
REAL_IN = {"rfft", "rfft2", "rfftn", "ihfft"}
SHAPES = {"quick": [(1,), (2,), (5,), (8,), (3, 4), (4, 5), (1, 8), (2, 3, 4), (3, 2, 5)],
          "thorough": [(1,), (2,), (3,), (5,), (8,), (3, 4), (4, 5), (1, 8), (2, 2), (5, 3), (2, 3, 4), (3, 2, 5), (4, 1, 3)]}
DTYPES_C = ["complex64", "complex128", "float32", "float64", "int8", "bool", "float16"]
DTYPES_R = ["float32", "float64", "int8", "int16", "bool", "int64", "float16"]


def describe(tier):
    return {
        "bounds": {"names": NAMES, "shapes": [list(s) for s in SHAPES[tier]], "complex-input dtypes": DTYPES_C,
                   "real-input dtypes": DTYPES_R, "axis": "every axis", "axes": "None, every ordered pair, singles",
                   "n / s": "None, shorter, longer", "norm": [None, "ortho", "forward"], "backends": ["numpy", "dask"],
                   "stft": {"nchan": [1, 2, 3, 4], "align": 3, "nperseg": "1,2,3,4,5,N (and 13, 17: lengths that are not 11-smooth)", "N": [12, 15, 16, 26, 34]}},
        "alphabet": ["pb.fft.<name>(x, ...)", "unknown name -> AttributeError", "dir(pb.fft)", "contrib.stft", "contrib.istft"],
        "rule": "state = (name, shape, dtype, kwargs, backend) or (stft config); result compared in values, shape and dtype with "
                "scipy.fft.<name>; cross-checked with numpy.fft and the long-double DFT definition (cases where the references "
                "disagree are unconstrained); STFT tones must appear under the label equal to their absolute frequency",
    }


def gen_cases(tier, seed):
    for name in NAMES:
        for shape in SHAPES[tier]:
            if name not in ONE_D and len(shape) < 2:
                continue
            yield {"kind": "fft", "name": name, "shape": list(shape)}
    yield {"kind": "names"}
    for nchan in (1, 2, 3, 4):
        for align in ("bottom", "center", "top"):
            for N in (12, 15, 16, 26, 34):
                yield {"kind": "stft", "nchan": nchan, "align": align, "N": N}
    for nchan in (1, 2, 3):
        yield {"kind": "stft_defaults", "nchan": nchan}


def pattern(shape, dtype):
    idx = np.indices(shape)
    w = [7, 3, 5][:len(shape)]
    a = sum(wi * ii for wi, ii in zip(w, idx))
    re = ((a % 11) - 5) / 5.0
    im = (((a * 3 + 1) % 7) - 3) / 3.0
    dt = np.dtype(dtype)
    if dt.kind == "c":
        return (re + 1j * im).astype(dt)
    if dt.kind == "b":
        return (a % 3 == 0)
    if dt.kind in "iu":
        return ((a % 11) - 5).astype(dt)
    return re.astype(dt)


def kwargs_menu(name, shape):
    nd = len(shape)
    norms = [None, "ortho", "forward"]
    out = []
    if name in ONE_D:
        for ax in range(nd):
            L = shape[ax]
            base = L if name not in ("irfft", "hfft") else 2 * (L - 1)
            for n in sorted({None, max(1, base - 1), base + 2, 3}, key=lambda v: (v is not None, v)):
                for norm in norms:
                    kw = {"axis": ax}
                    if n is not None:
                        kw["n"] = n
                    if norm:
                        kw["norm"] = norm
                    out.append(kw)
        out.append({})
        out.append({"axis": -1, "norm": "ortho"})
        out.append({"workers": 2})                       # keywords of scipy.fft only (the reference's own interface)
        out.append({"overwrite_x": False, "axis": 0})
        out.append({"axis": np.array(0)})                   # the axis as a 0-d integer array
        out.append({"axis": None})                          # not a valid axis: the reference refuses it
        out.append({"_dup": ("n", 4, 5)})                   # the same argument positionally AND by keyword: refused
        out.append({"axis": np.int64(-1), "n": np.array(3)})
    else:
        two = name.endswith("2")
        axes_opts = [None] + [p for p in itertools.permutations(range(nd), 2)]
        if not two:
            axes_opts += [(a,) for a in range(nd)] + ([tuple(range(nd))] if nd == 3 else [])
        for axes in axes_opts:
            k = 2 if axes is None and two else (nd if axes is None else len(axes))
            s_opts = [None, tuple([3, 4, 2][:k]), tuple([2, 6, 5][:k])]
            if axes is None and not two and nd >= 2:
                # s shorter than the rank and no axes: the LAST len(s) axes are transformed
                s_opts += [(3,), tuple([2, 5][:nd - 1])]
            for s in s_opts:
                for norm in norms:
                    kw = {}
                    if axes is not None:
                        kw["axes"] = axes
                    if s is not None:
                        kw["s"] = s
                    if norm:
                        kw["norm"] = norm
                    out.append(kw)
                    if s is not None and not norm:
                        out.append(dict(kw, _positional=True))       # fn(x, s[, axes]) with positional arguments
        # axes=None spelled out (scipy then takes ALL axes, or the last len(s)), also positionally; -1 in s = "keep this length"
        for norm in (None,):
            out.append({"axes": None})
            out.append({"s": tuple([3, 4, 2][:max(1, nd - 1)]), "axes": None})
            out.append({"s": tuple([3, 4, 2][:max(1, nd - 1)]), "axes": None, "_positional": True})
            out.append({"axes": nd - 1})                     # a bare integer where a sequence is usual (scipy accepts both)
            out.append({"s": 5, "axes": -1})
            out.append({"s": 5})
            out.append({"axes": ()})                         # no axis transformed: the input comes back (its own dtype)
            out.append({"axes": [np.array(nd - 1), np.int64(0)][:nd]})     # entries of any integer type
            out.append({"_dup": ("s", (3,), (4,))})
            out.append({"s": (), "axes": ()})
            out.append({"s": tuple([3, 4, 2][:nd]), "axes": tuple(range(nd)), "norm": "ortho", "_positional": "all"})
            out.append({"s": None, "axes": tuple(range(max(0, nd - 2), nd)), "norm": "forward", "_positional": "all"})
            # lengths of s and axes that do not match, more entries than the rank: the reference refuses
            out.append({"s": (4, 4, 4), "axes": (0, 1)[:nd]})
            out.append({"s": (2, 3, 4, 5)})
            out.append({"s": (3,), "axes": (0, 1)[:nd]}) if nd >= 2 else None
            if nd >= 2 and name in ("fftn", "ifftn", "fft2", "ifft2"):
                out.append({"s": (-1, 4), "axes": (0, 1)})
                out.append({"s": (3, -1), "axes": (nd - 1, 0)})
    return out


def transformed_axes(name, kw, nd):
    if name in ONE_D:
        ax_ = kw.get("axis", -1)
        return {int(-1 if ax_ is None else ax_) % nd}
    axes = kw.get("axes")
    if isinstance(axes, int):
        axes = (axes,)
    if axes is None:
        if name.endswith("2") and "axes" not in kw:
            return {nd - 2, nd - 1}
        s = kw.get("s")
        s = (s,) if isinstance(s, int) else s
        return set(range(nd)) if s is None else set(range(nd - len(s), nd))
    return {int(a) % nd for a in axes}


def call(fn, x, kw):
    try:
        if "_dup" in kw:
            nm_, pos_, kwv_ = kw["_dup"]
            return fn(x, pos_, **{nm_: kwv_}), None
        if kw.get("_positional") == "all":
            return fn(x, kw["s"], kw["axes"], kw["norm"]), None
        if kw.get("_positional"):
            pos = [kw["s"]] + ([kw["axes"]] if "axes" in kw else [])
            return fn(x, *pos, **{k: v for k, v in kw.items() if k not in ("s", "axes", "_positional")}), None
        return fn(x, **kw), None
    except Exception as e:
        return None, e


def fft_case(case, res):
    name, shape = case["name"], tuple(case["shape"])
    nd = len(shape)
    f_pb = getattr(pb.fft, name)
    f_sp = getattr(scipy.fft, name)
    f_np = getattr(np.fft, name)
    dtypes = DTYPES_R if name in REAL_IN else DTYPES_C
    for dt in dtypes:
        x = pattern(shape, dt)
        for kw in kwargs_menu(name, shape):
            sub = {"dtype": dt, "kw": {k: (list(v) if isinstance(v, tuple) else v) for k, v in kw.items()}}
            want, werr = call(f_sp, x, kw)
            sp_only = any(k in kw for k in ("workers", "overwrite_x"))
            alt, aerr = (want, werr) if sp_only else call(f_np, x, kw)
            key = (name, shape, dt, tuple(sorted((k, str(v)) for k, v in kw.items())))
            if werr is None:
                nel0 = max(1, int(np.prod(want.shape)))
                lim = 64 * float(np.finfo(np.float32 if want.dtype in (np.complex64, np.float32) else np.float64).eps) * nel0 * 2
                # (numpy.fft REFUSING a spelling that scipy.fft accepts, e.g. a bare integer for axes, is not a disagreement)
                if (aerr is None and (alt.shape != want.shape or (want.size and float(np.max(np.abs(alt.astype(complex) - want.astype(complex)))) > lim))) or \
                        (aerr is not None and name in ("irfft", "irfft2", "irfftn", "hfft") and not isinstance(aerr, TypeError)):
                    # degenerate calls (e.g. irfft* over a length-1 axis: output length 2*(1-1) = 0) on which the
                    # reference libraries themselves disagree
                    res.skipped["numpy.fft and scipy.fft disagree on this call (unconstrained)"] += 1
                    continue
            if not kw and werr is None:
                # a Quantity as input: whatever scipy.fft returns for it (a bare array), pb.fft returns the same kind of object
                import astropy.units as _u
                try:
                    wq, gq = f_sp(x * _u.m), f_pb(x * _u.m)
                    res.transitions += 1
                    if type(gq) is not type(wq) or np.asarray(gq).dtype != np.asarray(wq).dtype or not np.array_equal(np.asarray(gq), np.asarray(wq)):
                        res.violation(f"pb.fft.{name}|Quantity input", f"returns {type(gq).__name__} {np.asarray(gq).dtype}, scipy.fft returns "
                                      f"{type(wq).__name__} {np.asarray(wq).dtype} [{sub}]", case, sub)
                    else:
                        res.hits["Quantity input"] += 1
                except Exception:
                    pass
            for backend in ("numpy", "dask"):
                res.state(key + (backend,))
                if backend == "numpy":
                    xin = x
                else:
                    tax = transformed_axes(name, kw, nd)
                    chunks = tuple(shape[a] if a in tax else 1 for a in range(nd))
                    xin = da.from_array(x, chunks=chunks)
                got, gerr = call(f_pb, xin, kw)
                res.transitions += 1
                res.traces += 1
                site = f"pb.fft.{name}|{backend}"
                if werr is not None:
                    if gerr is None:
                        # the reference refuses this call; a dask graph may defer the error to compute time
                        if backend == "dask":
                            try:
                                got.compute()
                                res.violation(f"{site}|reference raises", f"scipy.fft.{name} raises {type(werr).__name__} but "
                                              f"pb.fft returned a result [{sub}]", case, sub)
                            except Exception:
                                res.hits["reference raises: pb raises too"] += 1
                        else:
                            res.violation(f"{site}|reference raises", f"scipy.fft.{name} raises {type(werr).__name__}: {werr} "
                                          f"but pb.fft returned {getattr(got, 'shape', got)} [{sub}]", case, sub)
                    else:
                        res.hits["reference raises: pb raises too"] += 1
                    continue
                if gerr is not None:
                    res.violation(f"{site}|raised", f"{type(gerr).__name__}: {gerr} [{sub}]", case, sub)
                    continue
                if backend == "dask":
                    if not isinstance(got, da.Array):
                        res.violation(f"{site}|not lazy", f"Dask input returned {type(got).__name__} [{sub}]", case, sub)
                        continue
                    adv_shape, adv_dtype = got.shape, got.dtype
                    got = got.compute()
                    if tuple(adv_shape) != got.shape or adv_dtype != got.dtype:
                        res.violation(f"{site}|advertised shape/dtype", f"lazy result advertises {adv_shape}/{adv_dtype}, computes "
                                      f"to {got.shape}/{got.dtype} [{sub}]", case, sub)
                        continue
                    res.hits["dask lazy result"] += 1
                if got.shape != want.shape:
                    res.violation(f"{site}|shape", f"shape {got.shape}, scipy.fft gives {want.shape} [{sub}]", case, sub)
                    continue
                if got.dtype != want.dtype:
                    res.violation(f"{site}|dtype", f"dtype {got.dtype}, scipy.fft gives {want.dtype} [{sub}]", case, sub)
                    continue
                nel = max(1, int(np.prod([want.shape[a] for a in range(nd)])))
                eps = float(np.finfo(want.dtype).eps) if want.dtype.kind in "fc" else 0.0      # (no axis transformed: input dtype)
                tol = 32 * eps * nel * 2.0
                e = float(np.max(np.abs(got.astype(complex) - want.astype(complex)))) if want.size else 0.0
                if not res.ratio("err vs scipy.fft / budget", e, tol):
                    res.violation(f"{site}|values", f"max |pb - scipy.fft.{name}| = {e:.3g} (budget {tol:.3g}) [{sub}]", case, sub)
                    continue
                try:
                    kw_ref = {k: v for k, v in kw.items() if k not in ("_positional", "workers", "overwrite_x")}
                    for k_ in ("s", "axes"):
                        if isinstance(kw_ref.get(k_), int):
                            kw_ref[k_] = (kw_ref[k_],)
                    if "axes" in kw_ref and kw_ref["axes"] is None:
                        # spelled-out None means ALL axes (or the last len(s)) for every n-d name, also the "2" ones
                        n_ax = nd if kw_ref.get("s") is None else len(kw_ref["s"])
                        kw_ref["axes"] = tuple(range(nd - n_ax, nd))
                    if kw_ref.get("s") is not None and kw_ref.get("axes") is not None:
                        kw_ref["s"] = tuple(x.shape[a] if n_ == -1 else n_ for n_, a in zip(kw_ref["s"], kw_ref["axes"]))
                    ref = dft.ref_transform(name, x.astype(complex) if x.dtype.kind in "biu" else x, **kw_ref)
                except Exception:
                    res.skipped["definition-based reference not applicable"] += 1
                    continue
                if ref.shape == want.shape:
                    e2 = float(np.max(np.abs(got.astype(dft.CLD) - ref))) if want.size else 0.0
                    if not res.ratio("err vs DFT definition / budget", e2, tol):
                        res.violation(f"{site}|definition", f"max |pb - DFT definition| = {e2:.3g} [{sub}]", case, sub)
                else:
                    res.skipped["definition-based reference shape differs (unconstrained)"] += 1
                res.outcome((name, want.shape))
    res.sample({"name": name, "shape": list(shape), "kwargs_variants": len(kwargs_menu(name, shape))}, 1)


def names_case(case, res):
    # "lazily" also for arrays of high rank: building the graph must not transform a large probe array
    import tracemalloc
    xr = da.from_array(np.arange(2.0 ** 8).reshape((2,) * 8) + 0j, chunks=(2,) * 8)
    for nm in ("fft", "ifft", "rfft", "fftn", "hfft"):
        xin = xr.real if nm in ("rfft",) else xr
        tracemalloc.start()
        try:
            out = getattr(pb.fft, nm)(xin)
            peak = tracemalloc.get_traced_memory()[1]
        except Exception as e:
            tracemalloc.stop()
            res.violation(f"pb.fft.{nm}|rank 8|raised", f"{type(e).__name__}: {e}", case, {"name": nm})
            continue
        tracemalloc.stop()
        res.transitions += 1
        want = getattr(scipy.fft, nm)(np.asarray(xin))
        if not isinstance(out, da.Array) or out.dtype != want.dtype or out.shape != want.shape:
            res.violation(f"pb.fft.{nm}|rank 8|advertised", f"{getattr(out, 'dtype', None)}/{getattr(out, 'shape', None)} vs "
                          f"{want.dtype}/{want.shape}", case, {"name": nm})
        elif peak > 32 * 2 ** 20:
            res.violation(f"pb.fft.{nm}|rank 8|work done while building the graph", f"building the lazy transform of a 256-element array "
                          f"of rank 8 allocated {peak / 2 ** 20:.0f} MiB", case, {"name": nm})
        elif not np.allclose(out.compute(), want):
            res.violation(f"pb.fft.{nm}|rank 8|values", "differs from scipy.fft", case, {"name": nm})
        else:
            res.hits["high rank stays lazy"] += 1
    res.transitions += 1
    res.traces += 1
    res.state("names")
    if sorted(dir(pb.fft)) != sorted(NAMES) and not set(NAMES) <= set(dir(pb.fft)):
        res.violation("pb.fft|dir", f"dir(pb.fft) = {dir(pb.fft)}", case, None)
    for bad in ["dct", "idct", "fftshift", "fftfreq", "next_fast_len", "nope", "FFT", "fft3", "rfftfreq", "set_workers", "dst"]:
        res.transitions += 1
        try:
            getattr(pb.fft, bad)
            res.violation("pb.fft|unknown name accepted", f"pb.fft.{bad} did not raise AttributeError", case, {"name": bad})
        except AttributeError:
            res.hits["unknown name -> AttributeError"] += 1
        except Exception as e:
            res.violation("pb.fft|unknown name wrong exception", f"pb.fft.{bad}: {type(e).__name__}", case, {"name": bad})
    for nm in NAMES:
        f = getattr(pb.fft, nm)
        if f.__name__ != nm:
            res.violation("pb.fft|wrapper name", f"pb.fft.{nm}.__name__ = {f.__name__}", case, {"name": nm})
    res.sample({"names": NAMES}, 1)


def exact_labels(z):
    sc = hz(1 * z.channel_freqs.unit)
    return [F(float(v)) * sc for v in np.atleast_1d(z.channel_freqs.value)]


def stft_case(case, res):
    nchan, align, N = case["nchan"], case["align"], case["N"]
    srq, fcq = 1 * u.MHz, 400 * u.MHz
    rng = np.random.default_rng(20)
    for trailing in ((), (2,), (2, 3), (2, 2)):
        for P in sorted({1, 2, 3, 4, 5, N} if N < 20 else {2, N // 2, N}):
            if len(trailing) == 2 and P not in (2, 3, N):
                continue
            if N >= 20 and len(trailing) == 1:
                continue
            if P in (13, 17, 26, 34):
                res.hits["nperseg with a prime factor above 11"] += 1
            nt = N // P
            cls = "DualPolarizationSignal" if trailing else "BasebandSignal"
            # ---- inversion on a generic payload
            x = rng.uniform(-1, 1, (N, nchan) + trailing) + 1j * rng.uniform(-1, 1, (N, nchan) + trailing)
            z = factory.make(cls, x, sample_rate=srq, fc=fcq, align=align, start_name="iso", pol_type="linear", meta={"s": 1})
            zl = exact_labels(z)
            srx = hz(z.sample_rate)
            sub = {"nperseg": P, "trailing": list(trailing)}
            res.state(("stft", nchan, align, N, P, trailing))
            if P in (2, N):
                history.reuse_buffer(res, case, z, [(f"stft nperseg={P}", lambda q_: pb.contrib.stft(q_, nperseg=P)),
                                                    (f"stft+istft nperseg={P}", lambda q_: pb.contrib.istft(pb.contrib.stft(q_, nperseg=P), nperseg=P))],
                                     "stft")
            try:
                s = pb.contrib.stft(z, nperseg=P)
            except Exception as e:
                res.transitions += 1
                res.violation("stft|raised", f"{type(e).__name__}: {e} [{sub}]", case, sub)
                continue
            res.transitions += 1
            res.traces += 1
            if type(s) is not type(z):
                res.violation("stft|type", f"{type(s).__name__} [{sub}]", case, sub)
                continue
            if s.shape != (nt, nchan * P) + trailing:
                res.violation("stft|shape", f"{s.shape}, expected {(nt, nchan * P) + trailing} [{sub}]", case, sub)
                continue
            if abs(hz(s.sample_rate) - srx / P) > srx / P * F(4, 2 ** 52):
                res.violation("stft|sample_rate", f"{s.sample_rate!r}, expected sample_rate/{P} [{sub}]", case, sub)
            if s.start_time is None or T(s.start_time) != T(z.start_time):
                res.violation("stft|start_time", f"start_time changed [{sub}]", case, sub)
            sl = exact_labels(s)
            want_labels = []
            for i in range(nchan):
                for k in range(-(P // 2), P - P // 2):
                    want_labels.append(zl[i] + k * srx / P)
            tolf = srx * F(1, 10 ** 9)
            if len(sl) != len(want_labels) or max(abs(a - b) for a, b in zip(sl, want_labels)) > tolf:
                i = next((j for j, (a, b) in enumerate(zip(sl, want_labels)) if abs(a - b) > tolf), 0)
                res.violation("stft|labels", f"sub-channel {i} is labelled {float(sl[i])!r} Hz; channel label + k*bw/nperseg gives "
                              f"{float(want_labels[i])!r} Hz (off by {float((sl[i] - want_labels[i]) / (srx / P)):.3g} "
                              f"sub-channels) [{sub}]", case, sub)
            # ---- tones at known absolute frequency: one call with a different bin per channel / per repetition
            for k0 in range(-(P // 2), P - P // 2):
                t = np.arange(N)
                tone = np.zeros((N, nchan) + trailing, complex)
                ks = [((k0 + P // 2 + i) % P) - P // 2 for i in range(nchan)]
                for i, k in enumerate(ks):
                    tone[:, i] = np.exp(2j * np.pi * k * t / P).reshape((N,) + (1,) * len(trailing))
                zt = factory.make(cls, tone, sample_rate=srq, fc=fcq, align=align, start_name="iso", pol_type="linear")
                st = pb.contrib.stft(zt, nperseg=P)
                res.transitions += 1
                res.traces += 1
                pw = (np.abs(np.asarray(st.data)) ** 2).sum(axis=0)
                pw = pw.reshape((nchan * P, -1))[:, 0]
                stl = exact_labels(st)
                for i, k in enumerate(ks):
                    f_tone = zl[i] + k * srx / P
                    j = [jj for jj, lab in enumerate(stl) if abs(lab - f_tone) <= tolf]
                    blk = pw[i * P:(i + 1) * P]
                    tot = float(blk.sum())
                    if len(j) != 1 or tot <= 0 or pw[j[0]] < 0.999 * tot:
                        jmax = int(np.argmax(pw[i * P:(i + 1) * P])) + i * P
                        res.violation("stft|tone under wrong label", f"tone at {float(f_tone)!r} Hz (channel {i}, bin {k} of "
                                      f"{P}) has its power under the label {float(stl[jmax])!r} Hz [{sub}]", case,
                                      dict(sub, k=k, chan=i))
                        break
                    if nt and abs(pw[j[0]] / nt - 1.0) > 1e-6:
                        res.violation("stft|tone amplitude", f"unit tone gives power {pw[j[0]] / nt} per segment [{sub}]", case, sub)
                        break
                else:
                    res.hits["tone under the right label"] += 1
            # ---- ISTFT o STFT
            try:
                zi = pb.contrib.istft(s, nperseg=P)
            except Exception as e:
                res.violation("istft|raised", f"{type(e).__name__}: {e} [{sub}]", case, sub)
                continue
            res.transitions += 1
            res.traces += 1
            keep = nt * P
            if type(zi) is not type(z) or zi.shape != (keep, nchan) + trailing:
                res.violation("istft|shape/type", f"{type(zi).__name__} {zi.shape}, expected {(keep, nchan) + trailing} [{sub}]",
                              case, sub)
                continue
            e = float(np.max(np.abs(np.asarray(zi.data) - x[:keep]))) if keep else 0.0
            if not res.ratio("istft(stft) err / budget", e, 64 * float(np.finfo(float).eps) * max(P, 1)):
                res.violation("istft|values", f"ISTFT(STFT(z)) differs from z by {e:.3g} [{sub}]", case, sub)
            if abs(hz(zi.sample_rate) - srx) > srx * F(4, 2 ** 52):
                res.violation("istft|sample_rate", f"{zi.sample_rate!r} [{sub}]", case, sub)
            if zi.start_time is None or T(zi.start_time) != T(z.start_time):
                res.violation("istft|start_time", f"start_time changed [{sub}]", case, sub)
            il = exact_labels(zi)
            if len(il) != len(zl) or max(abs(a - b) for a, b in zip(il, zl)) > tolf:
                res.violation("istft|labels", f"labels {[float(v) for v in il]} differ from the original {[float(v) for v in zl]} "
                              f"[{sub}]", case, sub)
            # the STFT signal is kept and inverted again: same answer (the first call must not have changed it)
            try:
                zi2 = pb.contrib.istft(s, nperseg=P)
                res.transitions += 1
                if not np.array_equal(np.asarray(zi2.data), np.asarray(zi.data)):
                    res.violation("istft|second call on the same STFT object differs", f"istft(s) twice gives different samples "
                                  f"(max diff {float(np.max(np.abs(np.asarray(zi2.data) - np.asarray(zi.data)))):.3g}) [{sub}]", case, sub)
            except Exception as e:
                res.violation("istft|second call raised", f"{type(e).__name__}: {e} [{sub}]", case, sub)
            if keep < N:
                res.hits["truncated tail"] += 1
            if P % 2:
                res.hits["odd nperseg"] += 1
            if P == N:
                res.hits["nperseg == length"] += 1
            if align != "center" and nchan % 2 == 0:
                res.hits["non-center alignment on even nchan"] += 1
            # stft must not have changed its input (cheap local guard; full invariant in C14)
    res.sample({"stft": {"nchan": nchan, "align": align, "N": N}}, 1)


def stft_defaults_case(case, res):
    """Every way of spelling (or omitting) the optional arguments: the documented defaults are window='boxcar', nperseg=256,
    noverlap=0, nfft=None for BOTH directions, so a plain istft(stft(z)) inverts."""
    nchan = case["nchan"]
    rng = np.random.default_rng(77)
    for N in (256, 600, 1024):
        x = rng.uniform(-1, 1, (N, nchan)) + 1j * rng.uniform(-1, 1, (N, nchan))
        z = factory.make("BasebandSignal", x, sample_rate=1 * u.MHz, fc=400 * u.MHz, align="center", start_name="iso")
        keep = (N // 256) * 256
        spellings = [("plain", {}, {}), ("explicit defaults", dict(window="boxcar", nperseg=256, noverlap=0, nfft=None),
                                         dict(window="boxcar", nperseg=256, noverlap=0, nfft=None)),
                     ("stft explicit, istft plain", dict(nperseg=256), {}), ("stft plain, istft explicit", {}, dict(nperseg=256)),
                     ("NumPy integer nperseg", dict(nperseg=np.int64(256)), dict(nperseg=np.int32(256)))]
        ref = None
        for name, kw1, kw2 in spellings:
            sub = {"N": N, "spelling": name}
            res.state(("stft_defaults", nchan, N, name))
            try:
                s_ = pb.contrib.stft(z, **kw1)
                zi = pb.contrib.istft(s_, **kw2)
            except Exception as e:
                res.violation("stft defaults|raised", f"{name}: {type(e).__name__}: {e} [{sub}]", case, sub)
                continue
            res.transitions += 2
            res.traces += 1
            if s_.shape != (N // 256, 256 * nchan) or zi.shape != (keep, nchan):
                res.violation("stft defaults|shape", f"{name}: stft {s_.shape}, istft {zi.shape}; expected {(N // 256, 256 * nchan)} and "
                              f"{(keep, nchan)} [{sub}]", case, sub)
                continue
            e = float(np.max(np.abs(np.asarray(zi.data) - x[:keep])))
            if e > 1e-12 or abs(hz(zi.sample_rate) - hz(z.sample_rate)) > 0 or abs(T(zi.start_time) - T(z.start_time)) > 0 or \
                    [float(v) for v in np.atleast_1d(zi.channel_freqs.to_value(u.Hz))] != [float(v) for v in np.atleast_1d(z.channel_freqs.to_value(u.Hz))]:
                res.violation("stft defaults|not inverted", f"{name}: istft(stft(z)) differs from z (max {e:.3g}) or its rate / start / "
                              f"labels changed [{sub}]", case, sub)
                continue
            cur = (np.asarray(s_.data), np.asarray(zi.data))
            if ref is not None and not (np.array_equal(cur[0], ref[0]) and np.array_equal(cur[1], ref[1])):
                res.violation("stft defaults|spelling changes the result", f"{name} differs from the plain call [{sub}]", case, sub)
            ref = ref or cur
            res.hits["optional arguments omitted / spelled"] += 1
    res.sample({"stft_defaults": nchan}, 1)


def check_case(case):
    res = report.Result()
    {"fft": fft_case, "names": names_case, "stft": stft_case, "stft_defaults": stft_defaults_case}[case["kind"]](case, res)
    return res


def main(argv=None):
    return report.run_check(
        PID, gen_cases=gen_cases, check_case=check_case, describe=describe,
        required_hits=["buffer overwritten between calls", "optional arguments omitted / spelled", "Quantity input", "dask lazy result", "reference raises: pb raises too", "unknown name -> AttributeError",
                       "tone under the right label", "truncated tail", "odd nperseg", "nperseg == length", "nperseg with a prime factor above 11", "high rank stays lazy",
                       "non-center alignment on even nchan"],
        assumptions=["scipy.fft.<name> is the statement's reference; numpy.fft and the long-double DFT definition are independent "
                     "cross-checks, and calls on which they disagree with scipy are unconstrained",
                     "budget 64 eps(result dtype) * size"],
        argv=argv)


if __name__ == "__main__":
    sys.exit(main())
