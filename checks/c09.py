"""C09 -- Dask-backed signals give identical results, lazily, for any chunks or scheduler.

Enumerated: every catalogue operation x EVERY chunk composition of each sample axis (and 2-part splits of the
time axis) x synchronous / threaded / multiprocess schedulers, on 4 signal classes; for each operation on the
finest layout EVERY task order reachable with <= 1 (2 thorough) deviations from Dask's own order under a
controlled scheduler; pairs of pulsarbat task bodies on two threads under the cooperative thread scheduler
(<= 1 / 2 preemptions); reader Dask reads (laziness sentinel on baseband.open, chunks=, two readers in a graph).
Oracle: the same operation on the NumPy-backed signal; a sentinel delayed input counts executions.
"""
import itertools
import sys
import threading

import numpy as np
import astropy.units as u
import dask
import dask.array as da

from pbmc import bind_repo, report, factory, invariants, catalogue, sched_dask, sched_threads, REPO

pb = bind_repo()
PID = "C09"
BOUNDS = {"quick": dict(dev=1, preempt=1), "thorough": dict(dev=2, preempt=2)}
TRACE_FILES = (REPO + "/pulsarbat/transforms/", REPO + "/pulsarbat/fft.py", REPO + "/pulsarbat/utils.py", REPO + "/pulsarbat/contrib/")

SIGNALS = [("DualPolarizationSignal", 2, ()), ("DualPolarizationSignal", 3, ()), ("FullStokesSignal", 2, ()), ("Signal", 3, ()),
           ("IntensitySignal", 3, (2,))]


@pb.signal_transform
def t_abs(x):
    return abs(x)


@pb.signal_transform
def t_scale(x, k=2):
    return x * k


_CURRENT_NP = [None]        # NumPy copy of the data of the signal under test (for mixed NumPy/Dask operand lists)

EXTRA_OPS = [
    ("signal_transform abs (dtype changes)", lambda z: True, lambda z: t_abs(z)),
    ("signal_transform abs -> IntensitySignal", catalogue.is_bb, lambda z: t_abs(z, signal_type=pb.IntensitySignal)),
    ("signal_transform kwargs", lambda z: True, lambda z: t_scale(z, k=3)),
    ("to_stokes['U']", catalogue.is_dp, lambda z: z.to_stokes()["U"]),
    ("pipeline shift+dedisperse", catalogue.is_bb, lambda z: pb.coherent_dedispersion(pb.time_shift(z, catalogue.per_chan(z, [1.5, -2.0, 0.25])),
                                                                                      catalogue._dm_for(z, 1.8))),
    ("pipeline slice+shift+intensity", catalogue.is_bb, lambda z: pb.freq_shift(z[1:11], z.sample_rate / 5).to_intensity()),
    ("np.sqrt(np.abs(z))", lambda z: True, lambda z: np.sqrt(np.abs(z))),
    ("concatenate [NumPy piece, this signal's tail]", lambda z: True,
     lambda z: pb.concatenate([type(z).like(z[:5], np.asarray(_CURRENT_NP[0][:5])), z[5:]])),
    ("concatenate [this signal's head, NumPy piece]", lambda z: True,
     lambda z: pb.concatenate([z[:5], type(z).like(z[5:], np.asarray(_CURRENT_NP[0][5:]))])),
    ("ufunc NumPy signal + this signal", lambda z: True,
     lambda z: type(z).like(z, np.asarray(_CURRENT_NP[0])) + z),
    ("divmod", lambda z: z.dtype.kind == "f", lambda z: np.divmod(z, 0.75)),
]


def describe(tier):
    b = BOUNDS[tier]
    return {
        "bounds": {"signals": SIGNALS, "layouts": "every composition of each sample axis; time axis whole and split (5,7)",
                   "schedulers": ["synchronous", "threads", "processes (finest layout, 6 operations)"],
                   "task-order deviations": b["dev"], "thread preemptions": b["preempt"],
                   "operations": len(catalogue.OPS) + len(EXTRA_OPS)},
        "alphabet": [n for n, _, _ in catalogue.OPS] + [n for n, _, _ in EXTRA_OPS] + ["reader.read(use_dask=True[, chunks])", "dask_read"],
        "rule": "state = (operation, signal, chunk layout, scheduler) or (operation, task order) or (body pair, interleaving); "
                "lazy result must be Dask-backed with the type/metadata/shape/dtype of the NumPy result, sentinel count 0 before "
                "compute, values equal within 8 eps max|ref| after compute under every scheduler / explored order",
    }


def compositions(n):
    if n == 0:
        return [()]
    out = []
    for first in range(1, n + 1):
        for rest in compositions(n - first):
            out.append((first,) + rest)
    return out


def layouts(shape):
    per_axis = [compositions(s) for s in shape[1:]]
    for time in ((shape[0],), (5, shape[0] - 5)):
        for combo in itertools.product(*per_axis):
            yield (time,) + combo


def gen_cases(tier, seed):
    for si in range(len(SIGNALS)):
        cls, nchan, extra = SIGNALS[si]
        shape = (12,) + factory.sample_shape(cls, nchan, extra)
        for li, lay in enumerate(layouts(shape)):
            yield {"kind": "layout", "signal": si, "layout": [list(c) for c in lay]}
            if all(len(c) == 1 for c in lay):
                # the one-chunk layout again under ambient Dask settings a user may have chosen (tiny automatic chunks)
                yield {"kind": "layout", "signal": si, "layout": [list(c) for c in lay], "ambient": {"array.chunk-size": "16B"}}
        yield {"kind": "orders", "signal": si, "dev": BOUNDS[tier]["dev"]}
    yield {"kind": "processes", "_inline": True}
    for si in range(len(SIGNALS)):
        for first in range(len(HIST_OPS)):
            yield {"kind": "history", "signal": si, "first": first, "depth": 3 if tier == "quick" else 4}
    for pair in range(len(BODY_PAIRS)):
        yield {"kind": "bodies", "pair": pair, "bound": 0, "first": None}
        for chunk in range(8):
            yield {"kind": "bodies", "pair": pair, "bound": BOUNDS[tier]["preempt"], "first": chunk}
    yield {"kind": "readers"}
    yield {"kind": "joint"}


def np_signal(si):
    cls, nchan, extra = SIGNALS[si]
    ss = factory.sample_shape(cls, nchan, extra)
    rng = np.random.default_rng(900 + si)
    x = rng.uniform(-1, 1, (12,) + ss)
    if factory.default_dtype(cls) == np.complex128:
        x = x + 1j * rng.uniform(-1, 1, (12,) + ss)
    return factory.make(cls, x, rate_name="1MHz", start_name="iso", fc=400 * u.MHz, align="bottom", pol_type="linear",
                        chan_bw=None if cls in ("BasebandSignal", "DualPolarizationSignal") else 0.5 * u.MHz, meta={"c09": si})


class Sentinel:
    def __init__(self, arr):
        self.arr = arr
        self.count = 0
        self.lock = threading.Lock()

    def load(self):
        with self.lock:
            self.count += 1
        return self.arr


def dask_signal(zn, layout, sentinel=None):
    x = np.asarray(zn.data)
    if sentinel is not None:
        d = da.from_delayed(dask.delayed(sentinel.load, pure=False)(), shape=x.shape, dtype=x.dtype)
        d = d.rechunk(tuple(tuple(c) for c in layout))
    else:
        d = da.from_array(x, chunks=tuple(tuple(c) for c in layout))
    return type(zn).like(zn, d)


def all_ops(z):
    return catalogue.applicable(z) + [(n, f) for n, a, f in EXTRA_OPS if a(z)]


def as_tuple(o):
    return o if isinstance(o, tuple) else (o,)


def compare(res, case, name, ref, got, sub, site):
    """ref: NumPy-path result(s); got: computed Dask-path result(s) (signals or arrays)."""
    for r, g in zip(as_tuple(ref), as_tuple(got)):
        if isinstance(r, pb.Signal):
            if not isinstance(g, pb.Signal):
                res.violation(f"{site}|{name}|not a signal", f"{type(g).__name__} [{sub}]", case, sub)
                return False
            d = invariants.attrs_equal(r, g)
            if d:
                res.violation(f"{site}|{name}|metadata/shape/dtype", f"Dask path differs from NumPy path: {d} [{sub}]", case, sub)
                return False
            rv, gv = np.asarray(r.data), np.asarray(g.data)
        else:
            rv, gv = np.asarray(r), np.asarray(g)
            if rv.shape != gv.shape or rv.dtype != gv.dtype:
                res.violation(f"{site}|{name}|array shape/dtype", f"{gv.shape}/{gv.dtype} vs {rv.shape}/{rv.dtype} [{sub}]", case, sub)
                return False
        if rv.size:
            eps = float(np.finfo(rv.dtype).eps) if rv.dtype.kind in "fc" else 0.0
            tol = 8 * eps * max(1.0, float(np.nanmax(np.abs(rv))))
            e = float(np.nanmax(np.abs(gv - rv))) if rv.dtype.kind in "fc" else float(np.any(gv != rv))
            if not res.ratio("value err / (8 eps max|ref|)", e, tol if tol else 0.5):
                res.violation(f"{site}|{name}|values", f"max |dask - numpy| = {e:.3g} [{sub}]", case, sub)
                return False
    return True


def lazy_ok(res, case, name, out, sub, site):
    ok = True
    for o in as_tuple(out):
        d = o.data if isinstance(o, pb.Signal) else o
        if not isinstance(d, da.Array):
            res.violation(f"{site}|{name}|not lazy", f"result container is {type(d).__name__} (must stay Dask-backed) [{sub}]", case, sub)
            ok = False
    return ok


def computed(out, **kw):
    outs = []
    for o in as_tuple(out):
        if isinstance(o, pb.Signal):
            adv = (o.shape, o.dtype)
            c = o.compute(**kw)
            if (c.shape, c.dtype) != adv:
                raise AssertionError(f"advertised {adv} but computed {(c.shape, c.dtype)}")
            outs.append(c)
        elif isinstance(o, da.Array):
            adv = (o.shape, o.dtype)
            c = o.compute(**kw)
            if (c.shape, c.dtype) != adv:
                raise AssertionError(f"advertised {adv} but computed {(c.shape, c.dtype)}")
            outs.append(c)
        else:
            outs.append(o)
    return tuple(outs)


CONTAINER_OPS = {"compute", "persist"}


def layout_case(case, res):
    zn = np_signal(case["signal"])
    _CURRENT_NP[0] = np.array(np.asarray(zn.data))
    layout = case["layout"]
    time_split = len(layout[0]) > 1
    for name, fn in all_ops(zn):
        sub = {"op": name, "layout": layout}
        res.state((case["signal"], name, str(layout)))
        try:
            ref = fn(zn)
            rerr = None
        except Exception as e:
            ref, rerr = None, e
        sent = Sentinel(np.asarray(zn.data))
        zd = dask_signal(zn, layout, sent)
        try:
            out = fn(zd)
            gerr = None
        except Exception as e:
            out, gerr = None, e
        res.transitions += 1
        res.traces += 1
        if rerr is not None:
            if gerr is None:
                try:
                    computed(out)
                    res.violation(f"lazy|{name}|reference raises", f"NumPy path raises {type(rerr).__name__} but the Dask path "
                                  f"returned a result [{sub}]", case, sub)
                except Exception:
                    pass
            res.hits["operation that raises"] += 1
            continue
        trivial = all(len(c) == 1 for c in layout)
        if gerr is not None:
            if (time_split or "single chunk" in str(gerr)) and not trivial:
                # rejected layouts (FFT along a chunked axis) must raise, and this one did
                res.hits["layout rejected (chunked time axis)" if time_split else "layout rejected (FFT along a chunked sample axis)"] += 1
                continue
            res.violation(f"lazy|{name}|raised", f"Dask path raised {type(gerr).__name__}: {gerr} on layout {layout} (NumPy path "
                          f"works) [{sub}]", case, sub)
            continue
        if name not in CONTAINER_OPS:
            if not lazy_ok(res, case, name, out, sub, "lazy"):
                continue
            if sent.count != 0:
                res.violation(f"lazy|{name}|computed while building", f"the input graph was executed {sent.count} time(s) while the "
                              f"result was being built [{sub}]", case, sub)
                continue
        for sched in ("synchronous", "threads"):
            try:
                got = computed(out, scheduler=sched)
            except AssertionError as e:
                res.violation(f"lazy|{name}|advertised shape/dtype", f"{e} [{sub}]", case, dict(sub, scheduler=sched))
                break
            except Exception as e:
                if time_split:
                    res.hits["layout rejected (chunked time axis)"] += 1
                    break
                res.violation(f"compute|{name}|raised", f"{sched}: {type(e).__name__}: {e} [{sub}]", case, dict(sub, scheduler=sched))
                break
            res.transitions += 1
            if not compare(res, case, name, ref, got, dict(sub, scheduler=sched), "compute"):
                break
        else:
            if name not in CONTAINER_OPS and sent.count == 0 and any(isinstance(o, (pb.Signal, da.Array)) for o in as_tuple(out)) \
                    and not name.startswith("chirp"):
                res.violation(f"lazy|{name}|sentinel never executed", f"compute did not run the input graph [{sub}]", case, sub)
            res.hits["lazy, then equal after compute"] += 1
            if time_split:
                res.hits["chunked time axis accepted and correct"] += 1
    res.sample({"signal": SIGNALS[case["signal"]], "layout": layout, "operations": len(all_ops(zn))}, 1)


def orders_case(case, res):
    """Every task order with <= dev deviations from Dask's own, on the finest sample-axis layout."""
    zn = np_signal(case["signal"])
    _CURRENT_NP[0] = np.array(np.asarray(zn.data))
    shape = zn.shape
    layout = [[shape[0]]] + [[1] * s for s in shape[1:]]
    for name, fn in all_ops(zn):
        if name.startswith("ERR") or name in CONTAINER_OPS:
            continue
        try:
            ref = fn(zn)
        except Exception:
            continue
        zd = dask_signal(zn, layout)
        try:
            out = fn(zd)
        except Exception as e:
            if "single chunk" in str(e):
                res.skipped["finest layout rejected by the operation (FFT along a chunked sample axis)"] += 1
                continue
            res.violation(f"orders|{name}|raised", f"{type(e).__name__}: {e}", case, {"op": name})
            continue
        outs = [o for o in as_tuple(out) if isinstance(o, (pb.Signal, da.Array))]
        if not outs:
            continue
        arrays = [o.data if isinstance(o, pb.Signal) else o for o in outs]

        def compute(get):
            return dask.compute(*arrays, scheduler=get)

        refs = [np.asarray(r.data if isinstance(r, pb.Signal) else r) for r in as_tuple(ref)]

        def check(result):
            if isinstance(result, Exception):
                res.violation(f"orders|{name}|task raised", f"{type(result).__name__}: {result}", case, {"op": name})
                return "exception"
            ok = True
            for r, g in zip(refs, result):
                eps = float(np.finfo(r.dtype).eps) if r.dtype.kind in "fc" else 0
                if r.dtype.kind == "b":
                    if g.shape != r.shape or g.dtype != r.dtype or not np.array_equal(g, r):
                        ok = False
                elif g.shape != r.shape or (r.size and float(np.nanmax(np.abs(g - r))) > 8 * eps * max(1.0, float(np.nanmax(np.abs(r))))):
                    ok = False
            if not ok:
                res.violation(f"orders|{name}|order-dependent result", f"a task order gives a result different from the NumPy path",
                              case, {"op": name})
            return ok

        st = sched_dask.explore(compute, case["dev"], check)
        res.traces += st["executions"]
        res.transitions += st["transitions"]
        for i in range(st["executions"]):
            res.state((case["signal"], "order", name, i))
        res.outcomes |= {f"{name}:{o}" for o in st["outcomes"]}
        if st["points"]:
            res.hits["task orders explored (graphs with a choice)"] += st["executions"]
        res.info[f"decision_points[{SIGNALS[case['signal']][0]}:{name}]"] = st["points"]
    res.sample({"signal": SIGNALS[case["signal"]], "layout": layout, "deviation bound": case["dev"]}, 1)


def processes_case(case, res):
    zn = np_signal(0)
    shape = zn.shape
    layout = [[shape[0]]] + [[1] * s for s in shape[1:]]
    wanted = ["time_shift per-chan", "freq_shift scalar", "coherent internal", "to_stokes", "z[::2]", "incoherent"]
    ops = dict(all_ops(zn))
    for name in wanted:
        ref = ops[name](zn)
        out = ops[name](dask_signal(zn, layout))
        try:
            got = computed(out, scheduler="processes", num_workers=2)
        except Exception as e:
            res.violation(f"compute|{name}|processes raised", f"{type(e).__name__}: {e}", case, {"op": name})
            continue
        res.transitions += 1
        res.traces += 1
        res.state(("processes", name))
        compare(res, case, name, ref, got, {"op": name, "scheduler": "processes"}, "compute")
        res.hits["multiprocess scheduler"] += 1
    res.sample({"scheduler": "processes", "operations": wanted}, 1)


def _bb(seed, nchan=2):
    rng = np.random.default_rng(seed)
    x = rng.uniform(-1, 1, (16, nchan, 2)) + 1j * rng.uniform(-1, 1, (16, nchan, 2))
    return factory.make("DualPolarizationSignal", x, rate_name="1MHz", start_name="iso", fc=(400 + seed) * u.MHz, pol_type="linear")


BODY_PAIRS = [
    ("coherent x2", lambda: (_bb(1), _bb(2)),
     lambda z: np.asarray(pb.coherent_dedispersion(z, catalogue._dm_for(z, 2.2)).data)),
    ("time_shift x2", lambda: (_bb(3), _bb(4, 3)), lambda z: np.asarray(pb.time_shift(z, catalogue.per_chan(z, [1.5, -0.75, 2.0])).data)),
    ("freq_shift + snippet", lambda: (_bb(5), _bb(6)), lambda z: np.asarray(pb.snippet(pb.freq_shift(z, z.sample_rate / 7), 1.5, 6).data)),
    ("transfer_function x2 (chirp tasks)", lambda: (_bb(7), _bb(8, 3)),
     lambda z: np.asarray(catalogue._dm_for(z, 5.0).chirp_from_signal(z))),
    ("stft + istft", lambda: (_bb(9), _bb(10)), lambda z: np.asarray(pb.contrib.istft(pb.contrib.stft(z, nperseg=4), nperseg=4).data)),
    ("real_to_complex x2", lambda: (np.arange(24.0).reshape(12, 2), np.cos(np.arange(30.0)).reshape(10, 3)),
     lambda a: pb.utils.real_to_complex(a, axis=0)),
    ("real_to_complex x2 same shape", lambda: (np.arange(24.0).reshape(12, 2), np.cos(np.arange(24.0)).reshape(12, 2)),
     lambda a: pb.utils.real_to_complex(a, axis=0)),
    ("time_shift x2 same shape", lambda: (_bb(11), _bb(12)), lambda z: np.asarray(pb.time_shift(z, 1.25).data)),
    ("freq_shift x2 same shape", lambda: (_bb(13), _bb(14)), lambda z: np.asarray(pb.freq_shift(z, z.sample_rate / 8).data)),
]


def bodies_case(case, res):
    name, mk, fn = BODY_PAIRS[case["pair"]]
    a, b_ = mk()
    ref = (fn(a), fn(b_))

    def make(s):
        return [lambda: fn(a), lambda: fn(b_)]

    def check(results, s):
        ok = True
        for i in range(2):
            st, val = results.get("T%d" % i, ("exc", None))
            if st != "ok" or val.shape != ref[i].shape or not np.array_equal(val, ref[i]):
                ok = False
                where = [t[3] for t in s.trace if t[1] != 0]
                res.violation(f"bodies|{name}|interleaving changes result", f"thread {i} "
                              f"{'raised ' + repr(val) if st != 'ok' else 'computed a different array'} with preemptions at {where}",
                              case, {"choices": [t[1] for t in s.trace]})
        return ok

    if case["first"] is None:
        st = sched_threads.explore(make, TRACE_FILES, 0, check)
        res.info[f"body_points[{name}]"] = st["points"]
    else:
        s0 = sched_threads.Sched([], TRACE_FILES)
        s0.run(make(s0))
        npts = len(s0.trace)
        st = {"executions": 0, "transitions": 0, "outcomes": set(), "divergences": 0}
        for i in range(case["first"], npts, 8):
            si = sched_threads.explore(make, TRACE_FILES, case["bound"], check, first_deviation=i)
            for k in ("executions", "transitions", "divergences"):
                st[k] += si[k]
            st["outcomes"] |= si["outcomes"]
    res.traces += st["executions"]
    res.transitions += st["transitions"]
    for i in range(st["executions"]):
        res.state(("bodies", name, case["first"], i))
    res.outcomes |= {f"{name}:{o}" for o in st["outcomes"]}
    if st["divergences"]:
        res.violation("bodies|replay divergence", f"{name}: {st['divergences']} executions diverged while replaying a prefix", case, None)
    if st["executions"]:
        res.hits["task-body interleavings explored"] += st["executions"]
    res.sample({"bodies": name, "executions": st["executions"]}, 1)


def readers_case(case, res):
    import baseband
    D = REPO + "/tests/data/"
    opens = {"n": 0}
    real_open = baseband.open

    def counting_open(*a, **k):
        opens["n"] += 1
        return real_open(*a, **k)

    baseband.open = counting_open
    try:
        specs = [("dada", lambda: pb.readers.BasebandReader(D + "sample.dada")),
                 ("dada mask", lambda: pb.readers.BasebandReader(D + "sample.dada", lower_sideband=[True, False])),
                 ("vdif real", lambda: pb.readers.BasebandReader(D + "sample.vdif")),
                 ("guppi", lambda: pb.readers.GUPPIRawReader([D + "fake.%d.raw" % i for i in range(4)])),
                 ("stokes", lambda: pb.readers.DADAStokesReader(D + "stokes_ef.dada"))]
        built = {}
        for nm, mk in specs:
            r = mk()
            built[nm] = r
            L = len(r)
            for (o, n) in ((0, 8), (3, 5), (L - 6, 6)):
                for chunks in (None, (-1,) + (1,) * (len(r.shape) - 1), (n,) + r.shape[1:],
                               (max(1, n // 3),) + r.shape[1:], (1,) + (-1,) * (len(r.shape) - 1)):      # (the last two split the time axis)
                    sub = {"reader": nm, "offset": o, "n": n, "chunks": chunks}
                    res.state(("reader", nm, o, n, str(chunks)))
                    c0 = opens["n"]
                    kw = {} if chunks is None else {"chunks": chunks}
                    z = r.read(o, n, use_dask=True, **kw)
                    res.transitions += 1
                    res.traces += 1
                    if not isinstance(z.data, da.Array):
                        res.violation("reader|not lazy", f"use_dask=True returned {type(z.data).__name__} data [{sub}]", case, sub)
                        continue
                    if opens["n"] != c0:
                        res.violation("reader|file opened while building", f"building a Dask read opened the file {opens['n'] - c0} "
                                      f"time(s) before compute [{sub}]", case, sub)
                    e = r.read(o, n)
                    d = invariants.attrs_equal(e, z.compute())
                    if d:
                        res.violation("reader|metadata", f"dask read differs from eager read: {d} [{sub}]", case, sub)
                    c1 = opens["n"]
                    for sched in ("synchronous", "threads"):
                        v = z.data.compute(scheduler=sched)
                        if v.shape != e.data.shape or v.dtype != e.data.dtype or not np.array_equal(v, e.data):
                            res.violation("reader|values", f"dask read ({sched}) differs from the eager read [{sub}]", case, sub)
                    if opens["n"] == c1:
                        res.violation("reader|compute did not read", "computing the Dask read never opened the file", case, sub)
                    if chunks is not None and z.data.numblocks == (1,) * z.ndim and int(np.prod(r.shape[1:])) > 1 and chunks[-1] == 1:
                        res.violation("reader|chunks ignored", f"chunks={chunks} gave {z.data.chunks}", case, sub)
                    res.hits["reader dask read lazy and equal"] += 1
            # downstream lazy operation on a reader signal
            z = r.dask_read(0, 12)
            if isinstance(z, pb.BasebandSignal):
                c0 = opens["n"]
                y = pb.time_shift(z, 1.5)
                if opens["n"] != c0 or not isinstance(y.data, da.Array):
                    res.violation("reader|downstream not lazy", "time_shift of a lazily read signal touched the file", case, {"reader": nm})
                ref = pb.time_shift(r.read(0, 12), 1.5)
                if not np.allclose(y.compute().data, ref.data, atol=1e-6):
                    res.violation("reader|downstream values", "time_shift(dask read) differs", case, {"reader": nm})
        # two readers in one graph, same (offset, n)
        for a, b_ in (("dada", "dada mask"),):
            za, zb = built[a].dask_read(4, 6), built[b_].dask_read(4, 6)
            ea, eb = built[a].read(4, 6).data, built[b_].read(4, 6).data
            for sched in ("synchronous", "threads"):
                ca, cb = dask.compute(za.data, zb.data, scheduler=sched)
                res.transitions += 1
                if not np.array_equal(ca, ea) or not np.array_equal(cb, eb):
                    res.violation("reader|two readers in one graph", f"joint compute ({sched}) of reads from two readers mixes them up",
                                  case, {"pair": [a, b_]})
            s = (za - zb).compute()
            if not np.array_equal(s.data, ea - eb):
                res.violation("reader|two readers in one graph", "za - zb differs from the eager difference", case, {"pair": [a, b_]})
            res.hits["two readers in one graph"] += 1
    finally:
        baseband.open = real_open
    res.sample({"readers": [s[0] for s in specs], "sentinel": "counting wrapper around baseband.open"}, 1)


HIST_OPS = ["compute", "persist", "asarray", "imul2", "iadd_b", "add_out", "rechunk", "data.compute"]


def history_case(case, res):
    """Every sequence of <= depth container / in-place operations on ONE Dask-backed signal object, mirrored on a NumPy twin."""
    import itertools as it
    zn0 = np_signal(case["signal"])
    shape = zn0.shape
    layout = [[shape[0]]] + [[1] * s for s in shape[1:]]
    bnp = np.asarray(np_signal((case["signal"] + 1) % len(SIGNALS)).data)
    bval = np.full(shape, 0.5) if bnp.shape != shape else np.real(bnp) * 0.25
    for d in range(1, case["depth"] + 1):
        for seq in it.product(range(len(HIST_OPS)), repeat=d):
            if seq[0] != case["first"]:
                continue
            twin = type(zn0).like(zn0, np.array(np.asarray(zn0.data)))
            x = dask_signal(zn0, layout)
            b_d = da.from_array(bval.astype(np.real(np.asarray(zn0.data)).dtype), chunks=tuple(tuple(c) for c in layout))
            res.state(("hist", case["signal"], seq))
            res.traces += 1
            names = [HIST_OPS[i] for i in seq]
            try:
                for nm in names:
                    res.transitions += 1
                    if nm == "compute":
                        got = np.asarray(x.compute().data)
                    elif nm == "persist":
                        got = np.asarray(x.persist().data.compute())
                    elif nm == "asarray":
                        got = np.asarray(x)
                    elif nm == "data.compute":
                        got = x.data.compute()
                    elif nm == "imul2":
                        x *= 2
                        twin *= 2
                        got = None
                    elif nm == "iadd_b":
                        x += b_d
                        twin += bval.astype(np.real(np.asarray(zn0.data)).dtype)
                        got = None
                    elif nm == "add_out":
                        np.add(x, 1, out=x)
                        np.add(twin, 1, out=twin)
                        got = None
                    elif nm == "rechunk":
                        x = x.rechunk((shape[0],) + tuple(shape[1:]))
                        got = None
                    if got is not None:
                        ref = np.asarray(twin.data)
                        if got.shape != ref.shape or not np.allclose(got, ref, rtol=1e-13, atol=1e-13):
                            res.violation(f"history|{nm}|stale or wrong values", f"after history {names} {nm} of the Dask-backed signal "
                                          f"differs from the NumPy twin (max diff {float(np.max(np.abs(got - ref))):.3g})", case,
                                          {"history": names})
                            break
                else:
                    fin = np.asarray(x.compute().data)
                    if not np.allclose(fin, np.asarray(twin.data), rtol=1e-13, atol=1e-13):
                        res.violation("history|final compute", f"after history {names} compute() differs from the NumPy twin", case,
                                      {"history": names})
                    d_ = invariants.attrs_equal(twin, x.compute())
                    if d_:
                        res.violation("history|metadata", f"after history {names}: {d_}", case, {"history": names})
            except Exception as e:
                res.violation("history|raised", f"history {names}: {type(e).__name__}: {e}", case, {"history": names})
            if any(n in ("imul2", "iadd_b", "add_out") for n in names) and names[0] in ("compute", "asarray", "persist"):
                res.hits["materialise, write in place, materialise again"] += 1
    res.sample({"history alphabet": HIST_OPS, "depth": case["depth"], "signal": SIGNALS[case["signal"]]}, 1)


def joint_case(case, res):
    """Two results of the SAME operation with DIFFERENT arguments evaluated in ONE graph must stay separate (no key collisions)."""
    zn = np_signal(0)
    shape = zn.shape
    layout = [[shape[0]]] + [[1] * s for s in shape[1:]]
    pairs = [
        ("coherent, two DMs", lambda z, k: pb.coherent_dedispersion(z, catalogue._dm_for(z, [2.2, -3.1, 0.7][k]))),
        ("coherent, DM and -DM", lambda z, k: pb.coherent_dedispersion(z, catalogue._dm_for(z, [2.2, -2.2, 2.2][k]), ref_freq=z.max_freq)),
        ("chirp_from_signal, two DMs", lambda z, k: catalogue._dm_for(z, [2.2, 5.5, -1.0][k]).chirp_from_signal(z)),
        ("time_shift, two shifts", lambda z, k: pb.time_shift(z, [1.5, -2.25, 0.5][k])),
        ("freq_shift, two shifts", lambda z, k: pb.freq_shift(z, z.sample_rate * [0.125, -0.3, 0.01][k])),
        ("snippet, two offsets", lambda z, k: pb.snippet(z, [1.5, 2.5, 0.25][k], 5)),
        ("incoherent, two DMs", lambda z, k: pb.incoherent_dedispersion(z, catalogue._dm_for(z, [3.3, -2.6, 1.1][k]))),
        ("signal_transform kwargs", lambda z, k: t_scale(z, k=[2, 3, 5][k])),
    ]
    for name, fn in pairs:
        refs = [fn(zn, k) for k in range(3)]
        zd = dask_signal(zn, layout)
        outs = [fn(zd, k) for k in range(3)]
        arrs = [o.data if isinstance(o, pb.Signal) else o for o in outs]
        res.state(("joint", name))
        res.traces += 1
        for sched in ("synchronous", "threads"):
            try:
                got = dask.compute(*arrs, scheduler=sched)
            except Exception as e:
                res.violation(f"joint|{name}|raised", f"{sched}: {type(e).__name__}: {e}", case, {"pair": name})
                continue
            res.transitions += 1
            for k, (g, r) in enumerate(zip(got, refs)):
                rv = np.asarray(r.data if isinstance(r, pb.Signal) else r)
                if g.shape != rv.shape or float(np.max(np.abs(g - rv))) > 1e-5:
                    res.violation(f"joint|{name}|results mixed up", f"{name}: result #{k} computed together with its siblings ({sched}) "
                                  f"differs from the NumPy result (max diff {float(np.max(np.abs(g - rv))) if g.shape == rv.shape else 'shape'})",
                                  case, {"pair": name, "k": k})
                    break
        # lazy arithmetic between siblings
        if all(isinstance(o, pb.Signal) for o in outs) and outs[0].shape == outs[1].shape:
            s_ = (outs[0] - outs[1]).compute()
            want = np.asarray(refs[0].data) - np.asarray(refs[1].data)
            if float(np.max(np.abs(np.asarray(s_.data) - want))) > 1e-5:
                res.violation(f"joint|{name}|lazy difference", f"{name}: (a - b) computed lazily differs from the NumPy difference", case,
                              {"pair": name})
        res.hits["siblings in one graph"] += 1
    # settings in force WHILE THE RESULT IS BUILT decide the result, not those in force when it is computed: a dispersion constant
    # (a documented class attribute) changed only around the call
    K0 = pb.DispersionMeasure.dispersion_constant
    dmk = catalogue._dm_for(zn, 2.2)
    try:
        pb.DispersionMeasure.dispersion_constant = K0 * 1.25
        ref_k = np.asarray(pb.coherent_dedispersion(zn, dmk).data)
        ref_c = np.asarray(dmk.chirp_from_signal(zn))
        lazy_k = pb.coherent_dedispersion(dask_signal(zn, layout), dmk)
        lazy_c = dmk.chirp_from_signal(dask_signal(zn, layout))
    finally:
        pb.DispersionMeasure.dispersion_constant = K0
    for sched in ("synchronous", "threads"):
        res.transitions += 2
        gk = np.asarray(lazy_k.data.compute(scheduler=sched))
        gc = np.asarray(lazy_c.compute(scheduler=sched)) if isinstance(lazy_c, da.Array) else np.asarray(lazy_c)
        if gk.shape != ref_k.shape or float(np.max(np.abs(gk - ref_k))) > 1e-5 or float(np.max(np.abs(gc - ref_c))) > 1e-5:
            res.violation("joint|setting at build time vs compute time", f"a result built while DispersionMeasure.dispersion_constant was "
                          f"changed differs, once computed ({sched}), from the NumPy result obtained under the same setting", case,
                          {"sched": sched})
            break
    else:
        res.hits["setting changed only around the call"] += 1
    res.sample({"joint": [n for n, _ in pairs]}, 1)


def check_case(case):
    res = report.Result()
    if case.get("ambient"):
        with dask.config.set(case["ambient"]):
            layout_case(case, res)
        res.hits["ambient Dask configuration (tiny automatic chunks)"] += 1
        return res
    {"layout": layout_case, "history": history_case, "joint": joint_case, "orders": orders_case, "processes": processes_case, "bodies": bodies_case, "readers": readers_case}[case["kind"]](case, res)
    return res


def main(argv=None):
    return report.run_check(
        PID, gen_cases=gen_cases, check_case=check_case, describe=describe,
        required_hits=["setting changed only around the call", "lazy, then equal after compute", "ambient Dask configuration (tiny automatic chunks)", "operation that raises", "layout rejected (chunked time axis)",
                       "chunked time axis accepted and correct", "task orders explored (graphs with a choice)",
                       "multiprocess scheduler", "task-body interleavings explored", "reader dask read lazy and equal",
                       "two readers in one graph", "materialise, write in place, materialise again", "siblings in one graph"],
        assumptions=["real thread and process pools are run once per case (configurations), their internal schedules are covered only "
                     "through the controlled task-order explorer and the cooperative thread explorer (Python-line granularity in "
                     "pulsarbat's transforms/fft/utils/contrib files)", "a layout an operation rejects (FFT along a chunked axis) must "
                     "raise; raising is accepted only for time-axis splits"],
        argv=argv, chunksize=1)


if __name__ == "__main__":
    sys.exit(main())
