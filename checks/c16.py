"""C16 -- every signal object satisfies its class contract; copies reproduce it faithfully.

Enumerated: constructors (class x array rank 0..4 x shapes with zero-size / wrong fixed axes x 12 dtypes x
NumPy/Dask), metadata menus (one factor at a time and all pairs), setter assignments, every output of every
catalogue operation on both backends (monitor), like()/pickle/cloudpickle/Dask-helper copies.
Oracle: the contract checker pbmc.invariants (validity predicted from shape, dtype and argument alone).
"""
import copy
import itertools
import pickle
import sys

import cloudpickle
import numpy as np
import astropy.units as u
from astropy.time import Time
import dask.array as da

from pbmc import bind_repo, report, factory, invariants, catalogue

pb = bind_repo()
PID = "C16"

SHAPES = [(), (0,), (1,), (5,), (0, 0), (0, 3), (4, 0), (4, 1), (4, 2), (4, 3), (0, 2, 0), (4, 2, 0), (4, 0, 2), (4, 2, 1),
          (4, 2, 2), (4, 2, 3), (4, 2, 4), (4, 2, 5), (4, 3, 4), (0, 3, 4), (0, 0, 4), (0, 3, 2), (4, 2, 2, 3), (4, 2, 4, 3),
          (4, 2, 2, 0), (4, 3, 4, 1), (0, 3, 2, 0), (0, 4, 4, 0)]
DTYPES = ["bool", "int8", "int32", "int64", "uint64", "float16", "float32", "float64", "longdouble", "complex64", "complex128",
          "clongdouble", "object", ">f4", ">f8", ">c8", ">c16", ">i4", ">i2"]
T_OK = Time("2021-03-04T05:06:07.123456789", format="isot", scale="utc", precision=9)


def describe(tier):
    return {
        "bounds": {"shapes": [list(s) for s in SHAPES], "dtypes": DTYPES, "backends": ["numpy", "dask"],
                   "metadata menus": "sample_rate 10, center_freq 8, chan_bw 10, start_time 8, freq_align 8, pol_type 6, meta 7; "
                                     "one at a time + all pairs of arguments (first 4 values each)",
                   "catalogue operations": len(catalogue.OPS)},
        "alphabet": ["Class(z, **meta)", "setattr", "every catalogue operation output", "like() with/without overrides, across "
                     "classes", "pickle / cloudpickle / deepcopy", "compute persist to_dask_array rechunk"],
        "rule": "state = one constructor argument tuple / one assignment / one produced signal; validity predicted from the contract "
                "(dims, fixed axes, non-empty sample shape, np.can_cast safe rule, unit/positivity/scalar rules); valid => object "
                "that passes the invariant checker with values preserved, invalid => ValueError and no object",
    }


def gen_cases(tier, seed):
    for cls in invariants.CLASSES:
        for be in ("numpy", "dask"):
            yield {"kind": "ctor", "cls": cls, "backend": be}
        yield {"kind": "meta", "cls": cls}
        yield {"kind": "setters", "cls": cls}
        for be in ("numpy", "dask"):
            yield {"kind": "outputs", "cls": cls, "backend": be}
        yield {"kind": "copies", "cls": cls}
    yield {"kind": "optimised"}


def base_kwargs(cls):
    kw = dict(sample_rate=1 * u.MHz, start_time=T_OK, meta={"a": 1})
    if cls != "Signal":
        kw.update(center_freq=400 * u.MHz, freq_align="center")
    if cls in ("RadioSignal", "IntensitySignal", "FullStokesSignal"):
        kw["chan_bw"] = 0.5 * u.MHz
    if cls == "DualPolarizationSignal":
        kw["pol_type"] = "linear"
    return kw


def shape_valid(cls, shape):
    if len(shape) < invariants.REQ_NDIM[cls]:
        return False
    if cls in invariants.FIXED and shape[invariants.FIXED[cls][0]] != invariants.FIXED[cls][1]:
        return False
    return int(np.prod(shape[1:])) != 0


def dtype_valid(cls, dt):
    req = invariants.DTYPES.get(cls)
    if not req:
        return True, np.dtype(dt)
    if np.dtype(dt) in [np.dtype(r) for r in req]:
        return True, np.dtype(dt)
    try:
        ok = np.can_cast(np.dtype(dt), np.dtype(req[0]), "safe")
    except TypeError:
        ok = False
    return ok, np.dtype(req[0])


def make_array(shape, dt, backend):
    n = int(np.prod(shape)) if shape else 1
    base = (np.arange(n) % 5).reshape(shape)
    if dt == "object":
        x = base.astype(object)
    elif np.dtype(dt).kind == "c":
        x = (base + 1j * (base % 3)).astype(dt)
    elif np.dtype(dt).kind == "b":
        x = (base % 2 == 0)
    else:
        x = base.astype(dt)
    if backend == "dask":
        if dt == "object":
            return None
        x = da.from_array(x, chunks=tuple(max(1, s) for s in shape) if shape else ())
    return x


def ctor_case(case, res):
    cls, be = case["cls"], case["backend"]
    C = getattr(pb, cls)
    for shape in SHAPES:
        for dt in DTYPES:
            x = make_array(shape, dt, be)
            if x is None:
                continue
            sub = {"shape": list(shape), "dtype": dt}
            res.state((cls, be, shape, dt))
            sv = shape_valid(cls, shape)
            dv, want_dt = dtype_valid(cls, dt)
            try:
                s = C(x, **base_kwargs(cls))
                exc = None
            except Exception as e:
                s, exc = None, e
            res.transitions += 1
            res.traces += 1
            if sv and dv:
                if exc is not None:
                    res.violation("construct|valid rejected", f"{cls}{shape} {dt} ({be}): {type(exc).__name__}: {exc}", case, sub)
                    continue
                br = invariants.check(s)
                if br:
                    res.violation(f"construct|contract|{br[0][0]}", f"{cls}{shape} {dt}: {br}", case, sub)
                    continue
                if s.dtype != want_dt or (cls in invariants.DTYPES and not s.dtype.isnative):
                    res.violation("construct|dtype after cast", f"{cls} from {dt}: dtype {s.dtype!r}, expected native {want_dt}", case, sub)
                if str(dt).startswith(">"):
                    res.hits["byte-swapped input"] += 1
                v = np.asarray(s.data.compute() if be == "dask" else s.data)
                ref = np.asarray(x.compute() if be == "dask" else x)
                if v.shape != ref.shape or not np.array_equal(v, ref.astype(want_dt)):
                    res.violation("construct|values changed", f"{cls} from {dt}: values not preserved by the safe cast", case, sub)
                if np.dtype(dt) != want_dt:
                    res.hits["safe cast applied"] += 1
                if shape and shape[0] == 0:
                    res.hits["zero-length but valid"] += 1
            else:
                if exc is None:
                    why = "shape" if not sv else "dtype"
                    res.violation(f"construct|invalid {why} accepted", f"{cls}{shape} {dt} ({be}) yielded {s!r}", case, sub)
                elif not isinstance(exc, ValueError):
                    res.violation("construct|wrong exception", f"{cls}{shape} {dt}: {type(exc).__name__}: {exc} (ValueError expected)",
                                  case, sub)
                else:
                    res.hits["invalid rejected with ValueError"] += 1
                    if not sv and shape and shape[0] == 0:
                        res.hits["zero-length AND empty sample shape rejected"] += 1
    res.sample({"cls": cls, "backend": be, "shapes": len(SHAPES), "dtypes": len(DTYPES)}, 1)


RATE_MENU = [(1 * u.Hz, True), (2.5 * u.MHz, True), (4 / u.s, True), (1e-3 * u.mHz, True), (0 * u.Hz, False), (-1 * u.Hz, False),
             ([1, 2] * u.Hz, False), (1 * u.s, False), (1.0, False), (None, False), ([10] * u.MHz, False), ([[250]] * u.kHz, False),
             (np.array(3.0) * u.Hz, True), (np.nan * u.Hz, False), (-np.inf * u.MHz, False), (np.float32(2.0) * u.kHz, True),
             (u.Quantity(3, u.Hz, dtype=int), True), ("1 Hz", False), (1 * u.Hz / u.s, False),
             # not a positive real number once it is a double: complex values, a long-double denormal
             (5j * u.Hz, False), ((1 + 5j) * u.Hz, False), (u.Quantity(np.longdouble("1e-400"), u.Hz), False),
             # convertible to Hz but not a frequency Quantity: logarithmic units
             (u.Dex(-3, u.dex(u.Hz)), False), (3 * u.dex(u.Hz), False), (u.Magnitude(2, u.mag(u.Hz)), False)]
FC_MENU = [(1 * u.GHz, True), (-3 * u.kHz, True), (0 * u.Hz, True), (7 / u.s, True), (1 * u.m, False), ([1, 2] * u.GHz, False),
           (5.0, False), (None, False), ([1.4] * u.GHz, False), (3 * u.dex(u.Hz), False)]
START_MENU = [(None, True), (T_OK, True), ("2020-01-01T00:00:00", True), (Time(59000.25, format="mjd", scale="tai"), True),
              (Time([59000.0, 59001.0], format="mjd"), False), ("garbage", False), (59000.5, False), ([1, 2], False),
              (Time([59000.0], format="mjd"), False),
              (Time(["2021-01-01T00:00:00", "2021-01-01T00:00:01"], format="isot", precision=9), False),
              (Time("2021-01-01T00:00:00", format="isot", precision=9) + np.arange(3) * u.s, False),
              (Time("2021-01-01T00:00:00", format="isot", precision=9), True)]
ALIGN_MENU = [("bottom", True), ("center", True), ("top", True), ("Center", False), ("middle", False), (None, False), (0, False),
              ("", False), (["center"], False), ({"center": 1}, False), (np.array("center"), False)]
POL_MENU = [("linear", True), ("circular", True), ("Linear", False), ("lin", False), (None, False), (1, False), (["linear"], False),
            ({"linear"}, False)]
import collections as _c
import types as _t
META_MENU = [(None, True), ({}, True), ({"k": [1, 2]}, True), ([("a", 1)], True), (5, False), ("ab", False), ([1, 2], False),
             # mappings that are not dicts: accepted (as on the unchanged code) but the signal must then hold a plain dict
             (_t.MappingProxyType({"a": 1}), True), (_c.ChainMap({"a": 1}, {"b": 2}), True), (_c.OrderedDict(a=1), True),
             (_c.UserDict({"a": 1}), True)]


def menus(cls):
    m = {"sample_rate": RATE_MENU, "start_time": START_MENU, "meta": META_MENU}
    if cls != "Signal":
        m["center_freq"] = FC_MENU
        m["freq_align"] = ALIGN_MENU
    if cls in ("RadioSignal", "IntensitySignal", "FullStokesSignal"):
        m["chan_bw"] = RATE_MENU
    if cls == "DualPolarizationSignal":
        m["pol_type"] = POL_MENU
    return m


def valid_array(cls, nchan=2):
    ss = factory.sample_shape(cls, nchan)
    return factory.payload(4, ss, factory.default_dtype(cls))


def meta_case(case, res):
    cls = case["cls"]
    C = getattr(pb, cls)
    mm = menus(cls)

    def attempt(over, nchan, sub):
        kw = base_kwargs(cls)
        kw.update(over)
        ok = all(v for _, v in over.values()) if False else None
        return kw

    for nchan in (2, 3):
        x = valid_array(cls, nchan)
        combos = []
        for k, menu in mm.items():
            for val, ok in menu:
                combos.append(({k: val}, ok))
        keys = list(mm)
        for k1, k2 in itertools.combinations(keys, 2):
            for (v1, o1), (v2, o2) in itertools.product(mm[k1][:4] + mm[k1][-3:-1], mm[k2][:4] + mm[k2][-3:-1]):
                combos.append(({k1: v1, k2: v2}, o1 and o2))
        for over, ok in combos:
            kw = base_kwargs(cls)
            kw.update(over)
            sub = {"nchan": nchan, "args": {k: repr(v) for k, v in over.items()}}
            res.state((cls, nchan, tuple(sorted((k, repr(v)) for k, v in over.items()))))
            try:
                s = C(x, **kw)
                exc = None
            except Exception as e:
                s, exc = None, e
            res.transitions += 1
            res.traces += 1
            if ok:
                if exc is not None:
                    res.violation("metadata|valid rejected", f"{cls}({sub['args']}): {type(exc).__name__}: {exc}", case, sub)
                    continue
                br = invariants.check(s)
                if br:
                    res.violation(f"metadata|contract|{br[0][0]}", f"{cls}({sub['args']}): {br}", case, sub)
                if "meta" in over and isinstance(over["meta"], dict) and s.meta is over["meta"]:
                    res.violation("metadata|meta not copied", "the signal holds the caller's own dict object", case, sub)
                if "freq_align" in over and nchan % 2:
                    res.hits["odd nchan with explicit alignment"] += 1
            else:
                if exc is None:
                    res.violation("metadata|invalid accepted", f"{cls}({sub['args']}) with nchan {nchan} yielded an object "
                                  f"(contract: ValueError)", case, sub)
                elif not isinstance(exc, ValueError):
                    res.violation("metadata|wrong exception", f"{cls}({sub['args']}): {type(exc).__name__}: {exc}", case, sub)
                else:
                    res.hits["invalid metadata rejected"] += 1
    # a length offered as a frequency while the caller's code has spectral equivalencies enabled: still not a frequency
    x = valid_array(cls, 2)
    for key in [k for k in ("sample_rate", "chan_bw", "center_freq") if k in mm]:
        kw = base_kwargs(cls)
        kw[key] = 3 * u.m
        res.transitions += 1
        try:
            with u.set_enabled_equivalencies(u.spectral()):
                s = C(x, **kw)
            res.violation("metadata|invalid accepted", f"{cls}({key}=3 m) under enabled spectral equivalencies yielded an object holding "
                          f"{getattr(s, key)!r} (contract: ValueError)", case, {"key": key, "ambient": "spectral"})
        except ValueError:
            res.hits["length refused as a frequency under ambient equivalencies"] += 1
        except Exception as e:
            res.violation("metadata|wrong exception", f"{cls}({key}=3 m) under spectral equivalencies: {type(e).__name__}: {e}", case,
                          {"key": key, "ambient": "spectral"})
    # augmented assignments and in-place updates of a value READ from the object: a refused update leaves the object as it was,
    # an accepted one goes through the same validation as an assignment, and no attribute shares its storage with another
    x = valid_array(cls, 2)
    for key in [k for k in ("sample_rate", "chan_bw", "center_freq") if k in mm or (k == "chan_bw" and cls != "Signal")]:
        for what, fn, must_refuse in (("*= -1", lambda o: setattr(o, key, getattr(o, key).__imul__(-1)), key != "center_freq"),
                                      ("*= s (unit)", lambda o: setattr(o, key, getattr(o, key) * u.s), True),
                                      ("value read, then multiplied in place", lambda o: getattr(o, key).__imul__(2), None),
                                      ("*= 2", lambda o: setattr(o, key, getattr(o, key).__imul__(2)), False)):
            s0 = C(x, **base_kwargs(cls))
            if cls in ("BasebandSignal", "DualPolarizationSignal"):
                s0.sample_rate = s0.sample_rate * 1          # (an earlier assignment must not couple the two attributes' storage)
            before = {k: repr(getattr(s0, k)) for k in ("sample_rate", "chan_bw", "center_freq") if hasattr(s0, k)}
            res.transitions += 1
            res.state((cls, "augmented", key, what))
            try:
                fn(s0)
                raised = None
            except Exception as e:
                raised = e
            after = {k: repr(getattr(s0, k)) for k in before}
            br = invariants.check(s0)
            sub = {"attr": key, "update": what}
            if br:
                res.violation(f"assign|contract|{br[0][0]}", f"after {cls}.{key} {what}{' (which raised)' if raised else ''}: {br}", case, sub)
            elif must_refuse is None and after != before:
                res.violation("assign|value read from the object is the object's own storage", f"{cls}: x = z.{key}; x *= 2 changed the "
                              f"signal: {before} -> {after}", case, sub)
            elif raised is not None and after != before:
                res.violation("assign|attribute changed by a rejected assignment", f"{cls}.{key} {what}: {before} -> {after}", case, sub)
            elif must_refuse and raised is None:
                res.violation("assign|invalid accepted", f"{cls}.{key} {what} was accepted: {after}", case, sub)
            else:
                res.hits["augmented assignments"] += 1
    # the Dask helpers on a signal of zero time samples (a valid signal) reproduce it
    z0 = C(valid_array(cls, 2), **base_kwargs(cls))[4:]
    for nm in ("rechunk", "to_dask_array", "compute", "persist"):
        res.transitions += 1
        try:
            o = getattr(z0, nm)()
            d = invariants.attrs_equal(o, z0) if nm in ("compute",) else (None if (type(o) is type(z0) and o.shape == z0.shape) else "type/shape")
            if d:
                res.violation(f"copies|{nm} of an empty signal", f"{cls}: {d}", case, {"op": nm})
            else:
                res.hits["Dask helpers on an empty signal"] += 1
        except Exception as e:
            res.violation(f"copies|{nm} of an empty signal raised", f"{cls}[4:].{nm}(): {type(e).__name__}: {e}", case, {"op": nm})
    res.sample({"cls": cls, "menus": {k: len(v) for k, v in mm.items()}}, 1)


def setters_case(case, res):
    cls = case["cls"]
    C = getattr(pb, cls)
    for nchan in (2, 3):
        for k, menu in menus(cls).items():
            for val, ok in menu:
                s = C(valid_array(cls, nchan), **base_kwargs(cls))
                before = copy.deepcopy(getattr(s, k))
                sub = {"attr": k, "value": repr(val), "nchan": nchan}
                res.state((cls, "set", nchan, k, repr(val)))
                try:
                    setattr(s, k, val)
                    exc = None
                except Exception as e:
                    exc = e
                res.transitions += 1
                res.traces += 1
                if ok:
                    if exc is not None:
                        res.violation("assign|valid rejected", f"{cls}.{k} = {val!r}: {type(exc).__name__}: {exc}", case, sub)
                        continue
                    br = invariants.check(s)          # (baseband: chan_bw == sample_rate also after an assignment)
                    if br:
                        res.violation(f"assign|contract|{br[0][0]}", f"after {cls}.{k} = {val!r}: {br}", case, sub)
                else:
                    if exc is None:
                        res.violation("assign|invalid accepted", f"{cls}.{k} = {val!r} (nchan {nchan}) was accepted; attribute is now "
                                      f"{getattr(s, k)!r}", case, sub)
                    elif not isinstance(exc, ValueError):
                        res.violation("assign|wrong exception", f"{cls}.{k} = {val!r}: {type(exc).__name__}: {exc}", case, sub)
                    else:
                        res.hits["invalid assignment rejected"] += 1
                        now = getattr(s, k)
                        same = (now is None and before is None) or repr(now) == repr(before)
                        if not same:
                            res.violation("assign|attribute changed by a rejected assignment", f"{cls}.{k}: {before!r} -> {now!r}",
                                          case, sub)
    res.sample({"cls": cls, "setters": list(menus(cls))}, 1)


def std_signal(cls, backend, nchan=2, L=12, align="bottom"):
    z = factory.make_encoded(cls, L, nchan=nchan, rate_name="1MHz", start_name="iso", fc=400 * u.MHz, align=align,
                             chan_bw=None if cls in ("BasebandSignal", "DualPolarizationSignal") else 0.5 * u.MHz,
                             meta={"origin": "c16"})
    if backend == "dask":
        z = type(z).like(z, da.from_array(np.asarray(z.data), chunks=(L,) + (1,) * (z.ndim - 1)))
    return z


def outputs_case(case, res):
    cls, be = case["cls"], case["backend"]
    for nchan, align in ((2, "bottom"), (3, "center"), (4, "top")):
        z = std_signal(cls, be, nchan, align=align)
        for name, fn in catalogue.applicable(z):
            sub = {"op": name, "nchan": nchan, "align": align}
            res.state((cls, be, nchan, name))
            try:
                out = fn(z)
            except Exception as e:
                res.transitions += 1
                if name.startswith("ERR"):
                    res.hits["raising operation"] += 1
                else:
                    res.skipped[f"operation raised on this configuration ({type(e).__name__})"] += 1
                continue
            res.transitions += 1
            res.traces += 1
            outs = out if isinstance(out, tuple) else (out,)
            for o in outs:
                if isinstance(o, pb.Signal):
                    br = invariants.check(o)
                    if br:
                        res.violation(f"output|{name}|{br[0][0]}", f"{name} on {cls} ({be}, nchan {nchan}) produced {o!r}: {br}",
                                      case, sub)
                    res.hits["operation outputs monitored"] += 1
        # stepped slice then further operations (baseband chan_bw must keep following sample_rate)
        if isinstance(z, pb.BasebandSignal):
            y = z[::2]
            for name, fn in catalogue.applicable(y):
                if name.startswith("ERR"):
                    continue
                try:
                    o = fn(y)
                except Exception:
                    continue
                res.transitions += 1
                if isinstance(o, pb.Signal):
                    br = invariants.check(o)
                    if br:
                        res.violation(f"output after stepped slice|{name}|{br[0][0]}", f"{br}", case, {"op": name})
            res.hits["baseband stepped slice chain"] += 1
    res.sample({"cls": cls, "backend": be, "ops": [n for n, _ in catalogue.applicable(z)][:6]}, 1)


def copies_case(case, res):
    cls = case["cls"]
    C = getattr(pb, cls)
    for be in ("numpy", "dask"):
        for nchan, align in ((2, "top"), (3, "center")):
            z = std_signal(cls, be, nchan, align=align)
            if cls == "DualPolarizationSignal":
                z.pol_type = "circular"
            copies = [("like", lambda: C.like(z)), ("pickle", lambda: pickle.loads(pickle.dumps(z))),
                      ("cloudpickle", lambda: cloudpickle.loads(cloudpickle.dumps(z))), ("deepcopy", lambda: copy.deepcopy(z)),
                      ("compute", lambda: z.compute()), ("persist", lambda: z.persist()), ("to_dask_array", lambda: z.to_dask_array()),
                      ("rechunk", lambda: z.rechunk()), ("rechunk explicit", lambda: z.rechunk((4,) + (1,) * (z.ndim - 1)))]
            for name, fn in copies:
                sub = {"copy": name, "backend": be, "nchan": nchan}
                res.state((cls, "copy", be, nchan, name))
                try:
                    c = fn()
                except Exception as e:
                    res.violation(f"copy|{name}|raised", f"{type(e).__name__}: {e}", case, sub)
                    continue
                res.transitions += 1
                res.traces += 1
                d = invariants.attrs_equal(z, c)
                if d:
                    res.violation(f"copy|{name}|attribute differs", f"{name} of {cls} ({be}): {d}", case, sub)
                    continue
                a = np.asarray(z.data.compute() if isinstance(z.data, da.Array) else z.data)
                b = np.asarray(c.data.compute() if isinstance(c.data, da.Array) else c.data)
                if not np.array_equal(a, b):
                    res.violation(f"copy|{name}|data differs", f"{name} of {cls}", case, sub)
                br = invariants.check(c)
                if br:
                    res.violation(f"copy|{name}|contract", f"{br}", case, sub)
                if name in ("to_dask_array", "rechunk", "rechunk explicit") and not isinstance(c.data, da.Array):
                    res.violation(f"copy|{name}|container", f"{type(c.data).__name__}", case, sub)
                if name == "compute" and isinstance(c.data, da.Array):
                    res.violation("copy|compute|container", "still a Dask array", case, sub)
                res.hits["copies"] += 1
            # like() with overrides: overrides honoured, everything else reproduced
            overrides = [{"sample_rate": 3 * u.kHz}, {"start_time": None}, {"meta": {"new": 2}}, {"meta": None}]
            if cls != "Signal":
                overrides += [{"center_freq": 1 * u.GHz}, {"freq_align": "center"}]
            if cls == "DualPolarizationSignal":
                overrides += [{"pol_type": "linear"}]
            for ov in overrides:
                c = C.like(z, **ov)
                res.transitions += 1
                for k in invariants.ATTRS:
                    if not hasattr(z, k):
                        continue
                    want = ov[k] if k in ov else getattr(z, k)
                    if k == "chan_bw" and "sample_rate" in ov and isinstance(z, pb.BasebandSignal):
                        want = ov["sample_rate"]
                    got = getattr(c, k)
                    same = (want is None and got is None) or (repr(got) == repr(want)) or \
                        (k == "start_time" and want is not None and got is not None and got.jd1 == want.jd1 and got.jd2 == want.jd2)
                    if not same:
                        res.violation("like|override", f"{cls}.like(z, {list(ov)}) has {k} = {got!r}, expected {want!r}", case,
                                      {"override": list(ov), "attr": k})
                res.hits["like with overrides"] += 1
    # assignment followed by a copy: copies must carry the CURRENT attribute values (no stale derived state)
    for nchan in (2, 4):
        for k, menu in menus(cls).items():
            for val, ok in menu:
                if not ok:
                    continue
                if cls in ("BasebandSignal", "DualPolarizationSignal") and k in ("sample_rate", "chan_bw"):
                    # after such an assignment chan_bw != sample_rate, a state no constructor (hence no copy) can produce
                    res.skipped["baseband: copy after sample_rate/chan_bw assignment (chan_bw is re-derived on creation)"] += 1
                    continue
                z = C(valid_array(cls, nchan), **base_kwargs(cls))
                _ = (z.dt, z.time_length, getattr(z, "channel_freqs", None), getattr(z, "bandwidth", None), z.stop_time)
                try:
                    setattr(z, k, val)
                except Exception:
                    continue
                for name, fn in (("like", lambda: C.like(z)), ("pickle", lambda: pickle.loads(pickle.dumps(z))),
                                 ("deepcopy", lambda: copy.deepcopy(z)), ("slice", lambda: z[:])):
                    c = fn()
                    res.transitions += 1
                    d = invariants.attrs_equal(z, c)
                    # a slice re-creates a baseband signal with chan_bw = sample_rate, so it is not an attribute-exact copy there
                    if d and not (name == "slice" and isinstance(z, pb.BasebandSignal)):
                        res.violation(f"copy after assignment|{name}", f"{cls}.{k} = {val!r} then {name}: {d}", case,
                                      {"attr": k, "value": repr(val), "copy": name})
                    for prop in ("dt", "time_length", "stop_time", "channel_freqs", "bandwidth", "max_freq", "min_freq"):
                        if hasattr(z, prop) and not (name == "slice" and isinstance(z, pb.BasebandSignal)):
                            a, b_ = getattr(z, prop), getattr(c, prop)
                            same = (a is None and b_ is None) or np.all(a == b_)
                            if not same:
                                res.violation(f"copy after assignment|{name}|derived {prop}", f"{cls}.{k} = {val!r}: {prop} of the "
                                              f"copy differs from the original ({a!r} vs {b_!r})", case, {"attr": k, "prop": prop})
                res.hits["assignment then copy"] += 1
    # like() across classes
    zr = std_signal("RadioSignal", "numpy", 2)
    zs = std_signal("Signal", "numpy", 2)
    zb = std_signal("DualPolarizationSignal", "numpy", 2)
    x_int = np.ones((12, 2))
    c = pb.IntensitySignal.like(zb, x_int)
    res.transitions += 1
    for k in ("sample_rate", "center_freq", "chan_bw", "freq_align", "start_time", "meta"):
        if repr(getattr(c, k)) != repr(getattr(zb, k)):
            res.violation("like|across classes", f"IntensitySignal.like(dualpol): {k} = {getattr(c, k)!r} vs {getattr(zb, k)!r}", case,
                          {"attr": k})
    try:
        pb.RadioSignal.like(zs, np.ones((12, 2)))
        res.violation("like|missing required accepted", "RadioSignal.like(plain Signal) did not raise", case, None)
    except ValueError:
        res.hits["like missing required -> ValueError"] += 1
    except Exception as e:
        res.violation("like|missing required wrong exception", f"{type(e).__name__}: {e}", case, None)
    c = pb.Signal.like(zr)
    if repr(c.sample_rate) != repr(zr.sample_rate) or c.start_time.jd2 != zr.start_time.jd2 or c.meta != zr.meta:
        res.violation("like|across classes", "Signal.like(radio) lost base attributes", case, None)
    res.sample({"cls": cls, "copies": ["like", "pickle", "cloudpickle", "deepcopy", "compute", "persist", "to_dask_array", "rechunk"]}, 1)


_OPT_SCRIPT = r"""
import sys, json
import numpy as np, astropy.units as u
from astropy.time import Time
import pulsarbat as pb
out = []
def tryit(name, fn):
    try:
        fn(); out.append([name, "accepted"])
    except ValueError:
        out.append([name, "ValueError"])
    except Exception as e:
        out.append([name, type(e).__name__])
x2 = np.zeros((4, 2)); c2 = np.zeros((4, 2), complex)
tryit("sample_rate -1 Hz", lambda: pb.Signal(x2, sample_rate=-1 * u.Hz))
tryit("sample_rate 0 Hz", lambda: pb.Signal(x2, sample_rate=0 * u.Hz))
tryit("sample_rate array", lambda: pb.Signal(x2, sample_rate=[1, 2] * u.Hz))
tryit("chan_bw -1 Hz", lambda: pb.RadioSignal(x2, sample_rate=1 * u.Hz, center_freq=1 * u.GHz, chan_bw=-1 * u.Hz))
tryit("center_freq array", lambda: pb.RadioSignal(x2, sample_rate=1 * u.Hz, center_freq=[1, 2] * u.GHz, chan_bw=1 * u.Hz))
tryit("start_time array", lambda: pb.Signal(x2, sample_rate=1 * u.Hz, start_time=Time(["2020-01-01", "2020-01-02"])))
z = pb.Signal(x2, sample_rate=1 * u.Hz)
tryit("assign sample_rate 0", lambda: setattr(z, "sample_rate", 0 * u.Hz))
tryit("dtype float for baseband", lambda: pb.BasebandSignal(np.zeros((4, 2), object), sample_rate=1 * u.Hz, center_freq=1 * u.GHz))
tryit("fullstokes 3 components", lambda: pb.FullStokesSignal(np.zeros((4, 2, 3)), sample_rate=1 * u.Hz, center_freq=1 * u.GHz, chan_bw=1 * u.Hz))
print(json.dumps({"optimised": not __debug__, "results": out}))
"""


def optimised_case(case, res):
    """The same refusals in an interpreter started with -O (assert statements are removed there)."""
    import json
    import os
    import subprocess
    import sys
    from pbmc import REPO
    env = dict(os.environ, PYTHONPATH=REPO, PYTHONOPTIMIZE="")
    pr = subprocess.run([sys.executable, "-O", "-W", "ignore", "-c", _OPT_SCRIPT], capture_output=True, text=True, env=env, timeout=300)
    res.transitions += 1
    try:
        rec = json.loads(pr.stdout.strip().splitlines()[-1])
    except Exception:
        res.violation("optimised|script failed", f"python -O run failed: {pr.stderr[-400:]}", case, None)
        return
    if not rec["optimised"]:
        res.skipped["interpreter did not honour -O"] += 1
        return
    for name, outcome in rec["results"]:
        res.transitions += 1
        res.state(("optimised", name))
        if outcome != "ValueError":
            res.violation("optimised|invalid not refused under python -O", f"{name}: {outcome} (ValueError expected; validation must not "
                          f"depend on assert statements)", case, {"what": name})
        else:
            res.hits["refused under python -O"] += 1


def check_case(case):
    res = report.Result()
    if case["kind"] == "optimised":
        optimised_case(case, res)
        return res
    {"ctor": ctor_case, "meta": meta_case, "setters": setters_case, "outputs": outputs_case, "copies": copies_case}[case["kind"]](case, res)
    return res


def main(argv=None):
    return report.run_check(
        PID, gen_cases=gen_cases, check_case=check_case, describe=describe,
        required_hits=["refused under python -O", "safe cast applied", "byte-swapped input", "zero-length but valid", "invalid rejected with ValueError",
                       "zero-length AND empty sample shape rejected", "odd nchan with explicit alignment",
                       "invalid metadata rejected", "invalid assignment rejected", "operation outputs monitored",
                       "baseband stepped slice chain", "copies", "assignment then copy", "like with overrides", "like missing required -> ValueError", "length refused as a frequency under ambient equivalencies", "augmented assignments", "Dask helpers on an empty signal"],
        assumptions=["'safe' is NumPy's can_cast(..., 'safe') table", "constructor inputs are NumPy or Dask arrays (the statement's domain)",
                     "baseband chan_bw == sample_rate is demanded at creation, not after a later sample_rate assignment"],
        argv=argv, chunksize=1)


if __name__ == "__main__":
    sys.exit(main())
