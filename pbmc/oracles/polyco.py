"""Tempo-style polyco text generator and the tempo prediction formula in exact rational arithmetic."""
from fractions import Fraction as F
from decimal import Decimal
import math


class Entry:
    def __init__(self, psr, tmid_str, rphase_str, f0_str, obs, span_min, coeff_strs, freq_str="327.000", dm_str="71.020168"):
        self.psr, self.tmid_str, self.rphase_str, self.f0_str = psr, tmid_str, rphase_str, f0_str
        self.obs, self.span_min, self.coeff_strs, self.freq_str, self.dm_str = obs, span_min, coeff_strs, freq_str, dm_str
        self.tmid = F(tmid_str)                       # MJD, exact decimal
        self.rphase = F(rphase_str)
        self.f0 = F(f0_str)
        self.coeffs = [F(c.lower().replace("d", "e")) for c in coeff_strs]
        self.start = self.tmid - F(span_min, 2 * 1440)
        self.stop = self.tmid + F(span_min, 2 * 1440)

    def text(self):
        l1 = f"{self.psr:<10s}  7-May-18  163000.00   {self.tmid_str}            {self.dm_str} -0.713 -6.294\n"
        l2 = f" {self.rphase_str}  {self.f0_str}   {self.obs}   {self.span_min}   {len(self.coeff_strs)}   {self.freq_str}\n"
        lines = ""
        for i in range(0, len(self.coeff_strs), 3):
            lines += " " + " ".join(f"{c:>24s}" for c in self.coeff_strs[i:i + 3]) + "\n"
        return l1 + l2 + lines

    def contains(self, mjd, margin=F(0)):
        return self.start + margin <= mjd <= self.stop - margin

    def phase(self, mjd):
        """RPHASE + 60*DT*F0 + sum COEFF(i) DT^(i-1), DT in minutes (exact)."""
        dt = (mjd - self.tmid) * 1440
        tot = self.rphase + 60 * dt * self.f0
        pw = F(1)
        for c in self.coeffs:
            tot += c * pw
            pw *= dt
        return tot

    def deriv(self, mjd, order):
        """(value, sum of |terms|) of the order-th derivative of phase w.r.t. time in seconds (cycle / s^order)."""
        dt = (mjd - self.tmid) * 1440
        terms = []
        if order == 1:
            terms.append(60 * self.f0)
        for i, c in enumerate(self.coeffs):          # term c * dt^i
            if i >= order:
                terms.append(c * math.perm(i, order) * dt ** (i - order))
        sc = F(1, 60) ** order
        return sum(terms, F(0)) * sc, sum((abs(t) for t in terms), F(0)) * sc


def fmt_coeff(x, spelling="e"):
    """Decimal string with 18 significant digits and the given exponent letter (e, E, D, d)."""
    s = f"{x:.17e}"
    return s.replace("e", spelling)


def make_entries(n_slots, scheme, span_min, f0_str, rphase0_str, ncoeff, spelling, tmid0="58244.93750000000", psr="B1937+21",
                 obs="ao"):
    """Entries on a slot grid: spacing by scheme in {'touch', 'overlap', 'gap0.5ms', 'gap10min'}."""
    spacing = {"touch": F(span_min, 1440), "overlap": F(span_min, 2880), "gap0.5ms": F(span_min, 1440) + F(5, 10 ** 4) / 86400,
               "gap10min": F(span_min + 10, 1440), "gap60s": F(span_min + 1, 1440),
               "gap2ms": F(span_min, 1440) + F(2, 10 ** 3) / 86400}[scheme]
    base = [-1.73185794610246813e-07, 2.74674525676052372e+00, 1.04238089662183955e-04, -5.85475369329423112e-08,
            -1.77387501594704725e-10, 9.44547001748998693e-14, 3.72147359481613728e-15, -1.39825429606617037e-16,
            -7.90837245186858380e-19, 9.28325106718060064e-20, 9.53148372636567222e-25, -1.81703238034500704e-23]
    f0 = F(f0_str)
    r0 = F(rphase0_str)
    t0 = F(tmid0)
    out = []
    for k in range(n_slots):
        tm = t0 + k * spacing
        tmid_str = str(Decimal(tm.numerator) / Decimal(tm.denominator)) if False else f"{float(tm):.11f}"
        # 11 decimals as tempo prints; recompute exact from the printed string
        tm_print = F(tmid_str)
        rph = r0 + f0 * 60 * (tm_print - t0) * 1440
        rph = F(round(rph * 10 ** 6), 10 ** 6)
        ar = abs(rph)           # sign-magnitude decimal, as tempo prints it (F20.6)
        rphase_str = ("-" if rph < 0 else "") + f"{ar.numerator // ar.denominator}.{(ar.numerator % ar.denominator) * 10 ** 6 // ar.denominator:06d}"
        cs = [fmt_coeff(base[i] * (1 + 0.01 * k) * (-1 if (i == 3 and k % 2) else 1), spelling) for i in range(ncoeff)]
        out.append(Entry(psr, tmid_str, rphase_str, f0_str, obs, span_min, cs))
    return out


def merged_intervals(entries, tol_days=F(1, 1000) / 86400):
    """Reference union of the spans, merging spans that overlap or are closer than tol."""
    iv = sorted((e.start, e.stop) for e in entries)
    out = []
    for a, b in iv:
        if out and a <= out[-1][1] + tol_days:
            out[-1][1] = max(out[-1][1], b)
        else:
            out.append([a, b])
    return out
